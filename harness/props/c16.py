"""C16 - label, tag, name and data validation holds on every construction path."""
import glob
import json
import os

import core
from core import LeanDriver, err_kind, canon
from gen import validators, entrypoints
import lib_c16 as L
import lib_c16ep as EP

ID = "C16"
GENERATORS = [validators.generate, entrypoints.generate]
LEAN_MODULES = ["FimVerif.Proofs.C16"]
P = "FimVerif.C16."
THEOREMS = [P + t for t in (
    "matches_iff", "accepts_full_iff", "accepts_dollar_iff", "anchors_full", "raw_writers_guarded", "range_fields_have_regex",
    "accept_sound", "stored_scalar_in_domain", "stored_list_in_domain", "accept_complete", "accept_complete_elem",
    "reencode_accepted", "label_regexes_avoid_newline", "stored_label_no_newline",
    "tags_sound", "tags_complete", "tag_no_newline", "name_accept_iff", "name_stored_is_input", "name_regexes_avoid_newline",
    "boot_accept_iff", "json_accept_iff", "int_of_digits", "range_holds_iff", "vlan_domain", "tag_domain", "node_name_domain",
    "dollar_admits_trailing_newline", "asn_domain", "accept_complete_many",
    "stored_list_all_strings", "wrong_type_rejected", "unknown_field_rejected", "keys_invariant",
    "blob_text_accept_iff", "blob_value_accept_iff", "blob_none_is_empty_object", "blob_value_reencodes",
    "set_fields_skeleton", "every_composed_name_validated", "every_store_guarded", "every_entry_point_validated", "every_entry_point_probed", "modelled_writers_guarded",
    "elem_name_invariant", "elem_step_exact", "elem_handle_follows_store",
    "create_accept_iff", "derived_classes_known", "derived_service_name_iff", "derived_service_suffixes_ok",
    "component_name_rejected_counterexample", "component_name_accepted_partial", "facility_name_iff",
    "facility_name_rejected_counterexample",
    "repo_kept_clean", "refused_call_changes_nothing", "kept_sliver_invariant", "kept_sliver_redecodes", "history_then_redecode",
    "write_first_counterexample", "decode_alters_counterexample")]
TRUSTED_BASE = [
    "gen/entrypoints.py: closed-world AST scan of fim/user/*.py, fim/slivers/*.py and abc_property_graph.py for statements that store a validated "
    "value (attribute assignments to the validated sliver / Labels / Tags / JSON fields and to _name, setattr/__setattr__/__dict__ writes, "
    ".tags.append, validated graph-property writes, add_*_sliver) with the guard idiom that dominates each (theorem every_store_guarded); "
    "name-resolved call graph with the set_property/set_properties selector and the receiver class as context (theorems "
    "every_entry_point_validated, every_composed_name_validated); the discovered entry points must equal harness/lib_c16ep.PROBES + EXEMPT; "
    "when the guard idiom of Labels._set_fields / Tags.__init__ is not recognised statically (validation moved into helpers, comprehension / "
    "generator feeding extend, scalar normalised to a one-element list) the row keeps its guard label only if a behavioural probe of the RUNNING "
    "class confirms it (accept == member per the class tables for 31 / 13 candidates x scalar, first / middle / last list position, tuple and "
    "mixed forms; stored == handed over; nothing stored on rejection; Tags keeps no reference to the caller's list) - listed in the extractor's "
    "report as guards_confirmed_behaviourally; gen/validators.py likewise reads the anchoring (fullmatch vs match ^..$) off the running class "
    "when the re call is not in _set_fields itself",
    "gen/entrypoints.py: derived-name idioms of generate_component / add_facility / add_switch and the catalogue's interface names (table `derived`), "
    "statement skeleton of Labels._set_fields (set_fields_skeleton)",
    "gen/validators.py: regexes are parsed by CPython's own re._parser and translated opcode by opcode (subset check); anchoring read "
    "from the call sites by AST; range lambdas and size comparisons by AST; \\d, \\w, int()-stripped characters tabulated from the running interpreter",
    "CPython's re engine is modelled by Re.matches/accepts (proved equal to the denotational language; compared with re on every generated string)",
    "Python int(str) is modelled by V16.pyInt (sign, underscores, stripped characters, digit limit), checked differentially",
    "json.loads / json.dumps are inputs of the JSON-blob model (validity and length computed by CPython)",
    "Model/Validate16.lean mirrors Labels._set_fields, Tags, set_name, set_boot_script, JSONData.__init__, the four ways of renaming an element and the "
    "derived-name checks of add_component / add_facility / add_switch by hand; checked differentially per entry point (ops labels, tags, name, ename, "
    "ehist, create, boot, jsonstr, jsonobj, match)",
    "gen/validators.py kept_probe: behavioural probes of every sliver class - a refused set_name / set_boot_script call (setter, set_property, bulk "
    "set_properties) leaves the kept object as it was (Gen.Validators.writeFirst), and the property-dictionary decoder hands every member word of the "
    "sentinel pool of harness/lib_c16 (None, null, NaN, '', graph-layer constants ...) back as given (decodeAlters); theorem repo_kept_clean; the kept-sliver "
    "model (stepSliver / reDecode) is compared with the real classes by the correspondence op `kept`",
    "the call graph over-approximates (method names resolved by name when the receiver is unknown): 'reaches the validator' is a may-fact; the "
    "must-part is the closed-world store table plus the behavioural probes of every entry point",
]
ENTRY_POINTS_NOTE = ("75 entry points discovered (99 entry-point x parameter rows); 74 probed directly (harness/lib_c16ep.PROBES: variants per sliver class / "
                     "element kind / component model), 1 exempt (abstract ModelElement.__init__). After every probe the whole scratch topology is swept: "
                     "every stored name / labels field / tag / boot script / JSON blob of every element - also the ones the library named itself - is a "
                     "member of its domain and every element decodes. Alias family: every entry point x every container domain (tag list, list-valued "
                     "label field, JSON blob from a Python object) is also called with a value built from a mutable object the caller keeps; after the "
                     "acceptance the caller puts a NON-MEMBER into its object (append, item / slice assignment, insert, extend, +=) and the stored value "
                     "is read, encoded and decoded again (signatures C16:alias.<constructor that kept the argument>.<tags|labels|json>:...). "
                     "Refused-call family: every entry point x domain is also run as histories member / non-member / member and non-member / member on ONE "
                     "kept target (EP.C(keep=True)); after each refused call no kept target carries the refused value, each still encodes and decodes, the "
                     "topology is swept (C16:refused.<entry>.<domain>:...). Codec family: every sliver kind x validated property x sentinel look-alike "
                     "members through the graph-property and JSON codecs (C16:codec.<class>.<property>.<codec>:...).")
ASSUMPTIONS = [
    "values are str / list / None / other objects (ints, bytes, containers, str subclasses, objects that are not of the parameter's class); attribute "
    "assignment on a Labels / Tags / JSONData / sliver object by the caller (bypassing every setter) is outside the quantifier; mutating the "
    "caller's OWN argument object after the call is inside it (alias family; Labels' list fields are by-reference today: 6 known findings)",
    "digit strings are shorter than sys.get_int_max_str_digits() (4300)",
    "the documented domain of a field is L(its regex) ∩ its range (Unicode decimal digits count as digits, as in [\\d] and int()); for bdf the separator before the function is a literal dot; for numa an integer literal -?digits in -1..7; "
    "for the free-form label fields: a str or a list of str",
]
RULE = ("(field, scalar|list form, entry point, string) with strings from a per-format grammar: documented examples, boundary numbers, members "
        "and their mutations (trailing/embedded newline, padding, junk, wrong separator, dropped char, Unicode digits, lengths at each limit); "
        "non-trivial = the string is not the field's plain documented example; distinct by canonical request")

PATHS = ["ctor", "setf", "update", "json", "elem"]
JSON_ERRS = {"other:UserDataError", "other:MeasurementDataError", "other:LayoutDataError", "other:JSONDataError"}
OTHER = 7          # stands for "a value that is neither None, str nor list"


def kind(e):
    k = err_kind(e)
    return "jsondata" if k in JSON_ERRS else k


kind_of = kind


# ---------------------------------------------------------------- implementation side

class Impl:
    def __init__(self):
        import fim.user as fu
        import fim.slivers.capacities_labels as cl
        import fim.slivers.tags as tg
        import fim.slivers.json_data as jd
        import fim.slivers.base_sliver as bs
        import importlib
        import logging
        logging.getLogger("FIM").setLevel(logging.CRITICAL)      # `forgiving` paths log a warning per unknown field
        self.fu, self.cl, self.tg, self.jd = fu, cl, tg, jd
        self.fields = list(cl.Labels().__dict__.keys())
        self.topo = fu.ExperimentTopology()
        self.node = self.topo.add_node(name="n1", site="S1")
        self.classes = {}
        for m in ("network_node", "attached_components", "network_service", "interface_info", "network_link", "network_attached_storage"):
            mod = importlib.import_module("fim.slivers." + m)
            for nm in dir(mod):
                c = getattr(mod, nm)
                if isinstance(c, type) and issubclass(c, bs.BaseSliver) and hasattr(c, "NAME_REGEX"):
                    self.classes[nm] = c
        try:
            from fim.slivers.network_node import CompositeNodeSliver
            self.classes["CompositeNodeSliver"] = CompositeNodeSliver
        except ImportError:
            pass

    SLIVER_OF = {"Node": "NodeSliver", "Component": "ComponentSliver", "Interface": "InterfaceSliver", "NetworkService": "NetworkServiceSliver"}

    def elements(self):
        """one element of every kind that can be built in an experiment topology (built once)"""
        if getattr(self, "_elems", None) is None:
            fu = self.fu
            t = fu.ExperimentTopology()
            n1 = t.add_node(name="e1", site="S1")
            n2 = t.add_node(name="e2", site="S1")
            gpu = n1.add_component(name="gpu1", model_type=fu.ComponentModelType.GPU_Tesla_T4)
            c1 = n1.add_component(name="nic1", model_type=fu.ComponentModelType.SharedNIC_ConnectX_6)
            c2 = n2.add_component(name="nic2", model_type=fu.ComponentModelType.SharedNIC_ConnectX_6)
            i1 = list(c1.interfaces.values())[0]
            i2 = list(c2.interfaces.values())[0]
            ns = t.add_network_service(name="ns1", nstype=fu.ServiceType.L2Bridge, interfaces=[i1, i2])
            self._elems = {"Node": n1, "Component": gpu, "Interface": i1, "NetworkService": ns}
            self._etopo = t
        return self._elems

    def raw_props(self, el):
        return dict(el.topo.graph_model.get_node_properties(node_id=el.node_id)[1])

    def raw_name(self, el):
        _, props = el.topo.graph_model.get_node_properties(node_id=el.node_id)
        return props.get("Name")

    def restore_name(self, el, orig):
        el.topo.graph_model.update_node_property(node_id=el.node_id, prop_name="Name", prop_val=orig)
        el._name = orig

    @staticmethod
    def name_entries(el):
        """every way to (re)write the name of an existing element: rename(), the property setter, set_property, set_properties"""
        return {"rename": lambda s: el.rename(s), "assign": lambda s: setattr(el, "name", s),
                "set_property": lambda s: el.set_property("name", s), "set_properties": lambda s: el.set_properties(name=s)}

    def ename(self, kind, entry, v):
        el = self.elements()[kind]
        orig = self.raw_name(el)
        try:
            self.name_entries(el)[entry](self.val(v))
            return ["ok", self.raw_name(el)]
        except Exception as e:
            return ["err", kind_of(e)]
        finally:
            self.restore_name(el, orig)

    def create(self, own, knd, variant, parent, v):
        """an entry point that derives further names from the one it is given"""
        fu = self.fu
        t = fu.ExperimentTopology()
        try:
            if knd == "component":
                n = t.add_node(name=parent, site="S1")
                el = n.add_component(name=v, model_type=getattr(fu.ComponentModelType, variant))
            elif knd == "facility":
                el = t.add_facility(name=v, site="S1")
            else:
                el = t.add_switch(name=v, site="S1", nports=1)
            return ["ok", self.raw_name(el)]
        except Exception as e:
            return ["err", kind_of(e)]
        finally:
            try:
                t.graph_model.delete_graph()
            except Exception:
                pass

    def ehist(self, cls, init, ops):
        """a history of name rewrites on one element: final name in the graph and the name the element object answers with"""
        c = EP.C(self)
        try:
            knd = {v: k for k, v in EP.ELEMS.items()}[cls]
            el = c.elem(knd)
            el.rename(init)
            for entry, v in ops:
                try:
                    self.name_entries(el)[entry](self.val(v))
                except Exception:
                    pass
            return ["ok", [self.raw_name(el), el.name]]
        finally:
            c.close()

    # wire value -> python value
    @staticmethod
    def val(v):
        if isinstance(v, list):
            return [x if isinstance(x, str) else (None if x is None else OTHER) for x in v]
        if v is None or isinstance(v, str):
            return v
        return OTHER

    def dump(self, lab):
        out = []
        if lab is None:
            return out
        for k, v in lab.__dict__.items():
            if v is None:
                continue
            if isinstance(v, list):
                v = [x if isinstance(x, str) else None for x in v]
            out.append([k, v])
        return out

    def labels(self, path, bkw, kw):
        Labels = self.cl.Labels
        b = {k: self.val(v) for k, v in bkw}
        k2 = {k: self.val(v) for k, v in kw}
        try:
            base = Labels(**b)
        except Exception:
            return ["err", "base"]
        try:
            if path == "ctor":
                r = Labels(**k2)
            elif path == "setf":
                r = base._set_fields(**k2)
            elif path == "update":
                r = Labels.update(base, **k2)
                if base.__dict__ != Labels(**b).__dict__:
                    return ["err", "update-mutated-its-argument"]
            elif path == "json":
                r = Labels.from_json(json.dumps(k2))
                if r is None:
                    r = Labels()
            elif path == "elem":
                n = self.node
                if n.labels is not None:
                    n.set_property("labels", None)
                if base.to_json() != "":
                    n.set_property("labels", base)
                n.update_labels(**k2)
                r = n.labels
            return ["ok", self.dump(r)]
        except Exception as e:
            return ["err", kind(e)]

    def tags(self, args):
        a = [self.val(x) for x in args]
        try:
            return ["ok", list(self.tg.Tags(*a).tags)]
        except Exception as e:
            return ["err", kind(e)]

    def name(self, cls, v):
        try:
            s = self.classes[cls]()
            s.set_name(self.val(v))
            return ["ok", s.resource_name]
        except Exception as e:
            return ["err", kind(e)]

    def boot(self, v):
        try:
            s = self.classes["NodeSliver"]()
            s.set_boot_script(self.val(v))
            return ["ok", s.boot_script]
        except Exception as e:
            return ["err", kind(e)]

    def kept(self, cls, init, ops):
        """one kept sliver object: a history of name / boot-script setter calls (some refused), then encode -> decode"""
        from fim.graph.abc_property_graph import ABCPropertyGraph as G
        s = self.classes[cls]()
        s.set_name(init)
        for which, route, v in ops:
            v = self.val(v)
            key, meth = {"name": ("name", "set_name"), "boot": ("boot_script", "set_boot_script")}[which]
            try:
                if route == "setter":
                    getattr(s, meth)(v)
                elif route == "set_property":
                    s.set_property(key, v)
                else:
                    s.set_properties(details="d", **{key: v}, model="m")
            except Exception:
                pass

        def show(x):
            return x if x is None or isinstance(x, str) else "<other>"
        held = (s.resource_name, s.boot_script)
        try:
            d = G.base_sliver_to_graph_properties_dict(s)
            s2 = self.classes[cls]()
            G.set_base_sliver_properties_from_graph_properties_dict(s2, {k: v for k, v in d.items() if k != "Type"})
            back = "same" if (s2.resource_name, s2.boot_script) == held else "differs"
        except Exception:
            back = "err"
        return ["ok", [show(held[0]), show(held[1]), back]]

    def jsonstr(self, cls, text):
        try:
            d = getattr(self.jd, cls)(text)
            assert d.json == text
            return ["ok", True]
        except Exception as e:
            return ["err", kind(e)]

    def jsonobj(self, cls, obj):
        try:
            d = getattr(self.jd, cls)(obj)
            return ["ok", True]
        except Exception as e:
            return ["err", kind(e)]


_IMPL = None


def impl():
    global _IMPL
    if _IMPL is None:
        _IMPL = Impl()
    return _IMPL


def json_facts(text):
    try:
        json.loads(text)
        return True
    except (json.JSONDecodeError, RecursionError):
        return False


def dumps_facts(obj):
    try:
        return True, len(json.dumps(obj))
    except TypeError:
        return False, 0


def impl_eval(req):
    I = impl()
    op = req[0]
    if op == "labels":
        return I.labels(req[1], req[2], req[3])
    if op == "tags":
        return I.tags(req[1])
    if op == "name":
        return I.name(req[1], req[2])
    if op == "ename":
        return I.ename(req[1], req[2], req[3])
    if op == "create":
        return I.create(req[1], req[2], req[3], req[4], req[5])
    if op == "ehist":
        return I.ehist(req[1], req[2], req[3])
    if op == "kept":
        return I.kept(req[1], req[2], req[3])
    if op == "boot":
        return I.boot(req[1])
    if op == "jsonstr":
        return I.jsonstr(req[1], req[2])
    if op == "jsonobj":
        return I.jsonobj(req[1], req[2])
    if op == "jsontext":
        return I.jsonstr(req[1], req[2])
    if op == "jsonval":
        try:
            d = getattr(I.jd, req[1])(req[2])
            return ["ok", len(d.json)]
        except Exception as e:
            return ["err", kind(e)]
    if op == "match":
        import re
        rx = I.cl.Labels.VALIDATORS[req[1]][0]
        return ["ok", [re.fullmatch(rx, req[2]) is not None, re.match("^" + rx + "$", req[2]) is not None]]
    raise core.Infra("bad op " + op)


def _jwire(o):
    if isinstance(o, dict):
        return {"o": [[k, _jwire(v)] for k, v in o.items()]}
    if isinstance(o, list):
        return [_jwire(x) for x in o]
    return o


def to_wire(req):
    """what the Lean driver sees: JSON blobs are replaced by the facts CPython computed about them"""
    if req[0] == "ename":          # renaming an element of kind K is set_name of K's sliver class, whatever the entry point
        return ["name", Impl.SLIVER_OF[req[1]], req[3]]
    if req[0] == "jsonval" and isinstance(req[2], str):
        return ["jsontext", req[1], req[2]]                                # JSONData dispatches on isinstance(data, str)
    if req[0] == "jsonval":
        return ["jsonval", req[1], _jwire(req[2])]
    if req[0] == "jsonstr":
        return ["jsonstr", req[1], len(req[2]), json_facts(req[2])]
    if req[0] == "jsonobj" and isinstance(req[2], str):
        return ["jsonstr", req[1], len(req[2]), json_facts(req[2])]      # JSONData dispatches on isinstance(data, str)
    if req[0] == "jsonobj":
        ok, n = dumps_facts(req[2])
        return ["jsonobj", req[1], ok, n]
    return req


# ---------------------------------------------------------------- cases

def base_for(field, rng):
    """a valid object to start setf / update / elem from: one other field set, sometimes the same field"""
    r = rng.random()
    if r < 0.3:
        return []
    if r < 0.5 and field in L.LABEL_DOMAIN:
        return [[field, good_example(field)]]
    return [rng.choice([["local_name", "p1"], ["vlan", "100"], ["mac", "00:11:22:33:44:55"], ["device_name", ["a", "b"]]])]


def good_example(field):
    import fim.slivers.capacities_labels as cl
    if field in cl.Labels.VALIDATORS and field != "bgp_key" and field != "account_id" and field != "region":
        return cl.Labels.VALIDATORS[field][1].split("'")[1] if "'" in cl.Labels.VALIDATORS[field][1] else cl.Labels.VALIDATORS[field][1]
    return {"bgp_key": "key-123456", "account_id": "acct-1", "region": "us-east", "numa": "0"}.get(field, "x")


def label_cases(rng, per_field, validated_only=False):
    I = impl()
    ranged_only = [k for k in I.cl.Labels.LAMBDA_VALIDATORS if k not in I.cl.Labels.VALIDATORS]
    reqs = []
    for f in I.fields:
        if validated_only and f not in L.LABEL_DOMAIN:
            continue
        n = per_field if f in L.LABEL_DOMAIN else max(4, per_field // 6)
        for s in L.candidates(f, rng, n):
            g = good_example(f)
            for p in PATHS:
                b = base_for(f, rng) if p in ("setf", "update", "elem") else []
                b = [x for x in b if x[0] != f or p != "json"]
                reqs.append(["labels", p, b, [[f, s]]])
            form = rng.choice([[s], [g, s], [s, g], [g, g, s]])
            for p in rng.sample(PATHS, 2) + ["ctor"]:
                b = base_for(f, rng) if p in ("setf", "update", "elem") else []
                reqs.append(["labels", p, b, [[f, form]]])
            if rng.random() < 0.5:
                reqs.append(["match", f, s]) if f in I.cl.Labels.VALIDATORS else None
    # several fields in one call, an invalid one in the middle; unknown field; wrong types (the malformed stream)
    for _ in range(per_field):
        fs = rng.sample(I.fields, 3)
        kw = []
        for f in fs:
            v = good_example(f) if rng.random() < 0.7 else rng.choice(L.candidates(f, rng, 8))
            kw.append([f, v])
        reqs.append(["labels", rng.choice(PATHS), [], kw])
    for f in ["vlan", "mac", "local_name", "asn", "device_name", "ipv6"]:
        for v in [None, OTHER, [], [None], ["1", OTHER], [OTHER, "zz"], [["1"]], ""]:
            if f in ranged_only and isinstance(v, list):
                continue
            for p in PATHS:
                reqs.append(["labels", p, [], [[f, v]]])
    for p in PATHS:
        for key in ("to_json", "VALIDATORS", "LAMBDA_VALIDATORS", "update", "_set_fields", "__doc__", "list_fields"):
            reqs.append(["labels", p, [], [[key, rng.choice(["x", ["x"]])]]])
            reqs.append(["labels", p, [["vlan", "7"]], [[key, "x"], ["vlan", "99999"]]])
            reqs.append(["labels", p, [], [[key, ["x"]], ["mac", "00:11:22:33:44:55"]]])
        reqs.append(["labels", p, [], [["nosuchfield", "1"]]])
        reqs.append(["labels", p, [], [["nosuchfield", None]]])
        reqs.append(["labels", p, [], [["nosuchfield", OTHER], ["vlan", "5"]]])
        reqs.append(["labels", p, [["vlan", "7"]], [["nosuchfield", "1"], ["asn", "5"]]])
        reqs.append(["labels", p, [["vlan", "7"]], [["asn", "5"], ["vlan", "99999"]]])
        reqs.append(["labels", p, [["vlan", "7"]], []])
    return [r for r in reqs if r]


def tag_cases(rng, n):
    reqs = []
    for s in L.tag_candidates(rng, n):
        reqs.append(["tags", [s]])
        reqs.append(["tags", [[s]]])
        reqs.append(["tags", ["good", [s, "x"], "y"]])
    for a in [[], [[]], [None], [OTHER], [[OTHER]], [["a", ["b"]]], ["a", "a"], [["a"], ["b"]], [[None]]]:
        reqs.append(["tags", a])
    return reqs


def name_cases(rng, n):
    reqs = []
    for cls in sorted(impl().classes):
        for s in L.name_candidates(cls, rng, n):
            reqs.append(["name", cls, s])
        for v in [None, OTHER, ["ab"]]:
            reqs.append(["name", cls, v])
    for k, cls in sorted(Impl.SLIVER_OF.items()):
        for s in L.name_candidates(cls, rng, max(12, n // 3)):
            for entry in ("rename", "assign", "set_property", "set_properties"):
                reqs.append(["ename", k, entry, s])
    return reqs


def create_cases(rng, n):
    """entry points that derive names: component models with interfaces (and two without), facility, switch; parents and
    names at the length boundaries and with the characters the classes disagree on"""
    import fim.user as fu
    models = [m.name for m in fu.ComponentModelType]
    reqs = []
    parents = ["n1", "ab", "p" * 40, "node-1.x", "q" * 200]
    for _ in range(n):
        variant = rng.choice(models)
        parent = rng.choice(parents)
        room = 255 - len(parent) - 7
        s = rng.choice(["a b", "ab", "a", "nic1", "a_b", "a.b", "a+b", "n" * room, "n" * (room + 1), "n" * (room + 2), "n" * (room - 1), "n" * 252,
                        "n" * 253, "n" * 255, "n" * 256, "é" * 5, "a\n", "x" * max(2, room) + " "] + L.name_candidates("ComponentSliver", rng, L.NAME_HEAD + 7)[L.NAME_HEAD:]
                       + ["None", "null"])
        reqs.append(["create", "ComponentSliver", "component", variant, parent, s])
    for s in ["ab", "a", "n" * 250, "n" * 251, "n" * 252, "n" * 253, "n" * 254, "n" * 255, "n" * 256, "a b", "a_b", "fac-1.x", "é" * 251, "é" * 252] + \
            ["None", "null"] + L.name_candidates("NodeSliver", rng, L.NAME_HEAD + n // 4)[L.NAME_HEAD:]:
        reqs.append(["create", "NodeSliver", "facility", "", "", s])
        reqs.append(["create", "NodeSliver", "switch", "", "", s])
    return reqs


def hist_cases(rng, n):
    reqs = []
    entries = ["rename", "assign", "set_property", "set_properties"]
    for _ in range(n):
        cls = rng.choice(sorted(EP.ELEMS.values()))
        cands = L.name_candidates(cls, rng, 40)
        ops = [[rng.choice(entries), rng.choice(cands)] for _ in range(rng.randrange(1, 7))]
        reqs.append(["ehist", cls, "init-1", ops])
    return reqs


def kept_cases(rng, n):
    """histories on one kept sliver: names and boot scripts, members and non-members (sentinel look-alikes, sizes at the limit,
    wrong types), through the three routes; then encode -> decode"""
    reqs = []
    routes = ["setter", "set_property", "set_properties"]
    boots = ["None", "null", "", "x" * 1023, "x" * 1024, "x" * 1025, "é" * 1024, "echo hi\n", None, OTHER, ["x"], "0", "False"]
    classes = ["NodeSliver", "ComponentSliver", "InterfaceSliver", "NetworkLinkSliver", "NetworkServiceSliver"]
    det = [[["boot", "setter", "ok"], ["boot", "setter", "x" * 1024]], [["boot", "set_properties", "x" * 2000]], [["name", "setter", "None"]],
           [["boot", "set_property", "None"]], [["name", "set_property", "ab\n"], ["boot", "setter", OTHER]],
           [["name", "setter", "None"], ["boot", "setter", "None"], ["name", "set_properties", ""], ["boot", "set_properties", "x" * 1024]]]
    for cls in classes:
        for ops in det:
            reqs.append(["kept", cls, "n1", ops])
    for _ in range(n):
        cls = rng.choice(classes)
        names = L.name_candidates(cls, rng, L.NAME_HEAD + 6) + [None, OTHER]
        ops = []
        for _ in range(rng.randrange(1, 6)):
            if rng.random() < 0.5:
                ops.append(["name", rng.choice(routes), rng.choice(names)])
            else:
                ops.append(["boot", rng.choice(routes), rng.choice(boots)])
        reqs.append(["kept", cls, rng.choice(["n1", "None", "ab"]), ops])
    return reqs


def size_cases(rng):
    reqs = []
    for n in [0, 1, 2, 1022, 1023, 1024, 1025, 2000]:
        reqs.append(["boot", "x" * n])
        reqs.append(["boot", "é" * n])
    reqs += [["boot", None], ["boot", OTHER], ["boot", ["x"]], ["boot", "#!/bin/bash\necho hi\n"]]
    reqs += [["boot", w] for w in L.LITERAL_SENTINELS[:16]]
    for cls, m in sorted(L.JSON_MAX.items()):
        for n in [m - 2, m - 1, m, m + 1, m + 2, 2, 10]:
            reqs.append(["jsonstr", cls, '"' + "a" * (n - 2) + '"'])
            reqs.append(["jsonstr", cls, "[" + " " * (n - 2) + "]"])
            reqs.append(["jsonstr", cls, '"' + "é" * (n - 2) + '"'])
            reqs.append(["jsonstr", cls, "{" + "a" * (n - 2) + "}"])             # right size, not JSON
            reqs.append(["jsonobj", cls, ["a" * max(0, n - 4)]])                 # dumps adds the brackets and quotes
            reqs.append(["jsonobj", cls, {"k": "v" * max(0, n - 9)}])
            reqs.append(["jsonobj", cls, ["é" * ((n - 4) // 6)]])
        for t in ["", "{}", "nope", "{\"a\": 1}", "[1, 2", "null", "NaN", " {} "]:
            reqs.append(["jsonstr", cls, t])
        for o in [{}, [], 0, 5, True, {"a": [1, 2, {"b": None}]}, 1.5, "", "abc", "{}"]:
            reqs.append(["jsonobj", cls, o])
        reqs.append(["jsonobj", cls, None])
    return reqs


JSON_TEXTS = ["", " ", "{}", " {} ", "[]", "nope", "null", "true", "false", "tru", "nul", "True", "None", "NaN", "-NaN", "Infinity", "-Infinity", "+1", "01", "1.",
              ".5", "5.", "-", "--1", "-0", "-0.0", "1e5", "1E-2", "1e", "1e+", "0x10", "1 ", " 1", "1 2", "[1 2]", "[1,]", "[,1]", "[1, 2", "]", "[", "{", "}",
              '{"a":1,}', '{"a" 1}', "{'a': 1}", '{"a": 1} x', '{"a": {"b": [1, {"c": null}]}}', '{"a": 1, "a": 2}', '{1: 2}', '"abc', 'abc"', '"a\\"', '"\\x"',
              '"\\/"', '"\\u12"', '"\\u00e9"', '"\\ud83d\\ude00"', '"tab\tin"', '"nl\nin"', '"é"', "\ufeff{}", "\n[\r\n1\t]\n", "[[[[[[[[[[1]]]]]]]]]]",
              "123456789012345678901234567890", "-12", "[true, false, null]", '["a", "b"]', '{"k": "v"}', "[1.5]", "[1e400]", '"\\""', "\"\"", '"\x7f"']


def json_model_cases(rng):
    """the JSON parser / serialiser inside the model: validity and dumped length are computed by Lean, not handed over"""
    reqs = []
    for cls, m in sorted(L.JSON_MAX.items()):
        for t in JSON_TEXTS:
            reqs.append(["jsontext", cls, t])
        for n in [m - 1, m, m + 1]:
            reqs.append(["jsontext", cls, '"' + "a" * (n - 2) + '"'])
            reqs.append(["jsontext", cls, "[" + ", ".join(["1"] * ((n - 1) // 3)) + "]"])
            reqs.append(["jsontext", cls, '{"k": "' + "é" * (n - 9) + '"}'])
            reqs.append(["jsonval", cls, ["a" * max(0, n - 4)]])
            reqs.append(["jsonval", cls, {"k": "v" * max(0, n - 9)}])
            reqs.append(["jsonval", cls, ["é" * ((n - 4) // 6)]])
            reqs.append(["jsonval", cls, ["\U0001f600" * ((n - 4) // 12)]])
            reqs.append(["jsonval", cls, list(range((n - 2) // 5))])
        for o in [{}, [], 0, -5, True, None, {"a": [1, 2, {"b": None}]}, "", "abc", "quote\"back\\slash\n\t\x01\x7f", {"é": "中"}, [[], {}, [[]]], 10 ** 30,
                  {"z": 1, "a": 2}, ["\u2028", "\x00"]]:
            reqs.append(["jsonval", cls, o])
        for _ in range(6):
            reqs.append(["jsonval", cls, _rand_json(rng, 3)])
    return reqs


def _rand_json(rng, depth):
    r = rng.random()
    if depth == 0 or r < 0.35:
        return rng.choice([0, 1, -1, 255, 2 ** 40, True, False, None, "", "a", "é", "\n", "a b", "\U0001d7d9", "x" * rng.randrange(0, 40)])
    if r < 0.7:
        return [_rand_json(rng, depth - 1) for _ in range(rng.randrange(0, 5))]
    return {rng.choice(["a", "b", "k", "é", "", "long key"]) + str(i): _rand_json(rng, depth - 1) for i in range(rng.randrange(0, 4))}


def all_cases(ctx, tag, per_field, names, tags):
    rng = ctx.sub_rng(tag)
    return (corpus_cases() + label_cases(rng, per_field) + tag_cases(rng, tags) + name_cases(rng, names) + size_cases(rng)
            + create_cases(rng, names) + hist_cases(rng, names // 2) + kept_cases(rng, names * 2) + json_model_cases(rng))


def corpus_cases():
    out = []
    for fn in sorted(glob.glob(os.path.join(core.CORPUS_DIR, ID, "*.json"))):
        with open(fn) as f:
            d = json.load(f)
        out.extend(d.get("requests", []))
    return out


def nontrivial(req):
    if req[0] == "labels":
        return any(v != good_example(k) for k, v in req[3])
    return True


# ---------------------------------------------------------------- correspondence

def correspondence(ctx, res):
    reqs = all_cases(ctx, "corr", ctx.scale(80, 800), ctx.scale(60, 400), ctx.scale(80, 600))
    implr = [impl_eval(r) for r in reqs]
    model = LeanDriver("C16").run([json.dumps(to_wire(r)) for r in reqs])
    for r, i, m in zip(reqs, implr, model):
        res.evaluations += 1
        res.count("op:" + r[0] + (":" + r[1] if r[0] == "labels" else ""))
        res.count("result:" + (i[0] if i[0] == "ok" else "err:" + i[1]))
        if nontrivial(r):
            res.nontrivial.add(canon(r)[:400])
        mj = json.loads(m)
        if mj != i:
            res.disagreements.append({"case": r if len(canon(r)) < 600 else canon(r)[:600], "impl": i, "model": mj})
    for k in (3, len(reqs) // 2, len(reqs) - 1):
        res.sample({"request": canon(reqs[k])[:300], "impl": implr[k], "model": json.loads(model[k])})


# ---------------------------------------------------------------- oracle (the property itself, on the implementation)

def _accepts(fn):
    try:
        return True, fn(), None
    except Exception as e:       # any exception is a rejection; the kind is kept for the report
        return False, None, kind(e)


def label_paths(I, f, v):
    """every way a value reaches field f; each returns the Labels object that then holds it"""
    Labels = I.cl.Labels
    from fim.graph.abc_property_graph import ABCPropertyGraph as G

    def elem():
        n = I.node
        if n.labels is not None:
            n.set_property("labels", None)
        n.update_labels(**{f: v})
        return n.labels

    def elem_assign():
        n = I.node
        n.labels = Labels(**{f: v})
        return n.labels

    def decode():
        d = {G.PROP_NAME: "ab", G.PROP_TYPE: "VM", G.PROP_LABELS: json.dumps({f: v})}
        return G.node_sliver_from_graph_properties_dict(d).get_labels()

    return {
        "ctor": lambda: Labels(**{f: v}),
        "setf": lambda: Labels(local_name="p")._set_fields(**{f: v}),
        "update": lambda: Labels.update(Labels(local_name="p"), **{f: v}),
        "json": lambda: Labels.from_json(json.dumps({f: v})),
        "elem": elem, "elem_assign": elem_assign, "decode": decode,
    }


def check_label(I, f, s, res):
    dom = L.LABEL_DOMAIN.get(f)
    g = good_example(f)
    Labels = I.cl.Labels
    for form, v in (("scalar", s), ("list", [g, s]), ("list-first", [s, g]), ("list-only", [s]), ("list-last", [g, g, s])):
        inside = True if dom is None else dom(s)
        for pname, fn in label_paths(I, f, v).items():
            ok, lab, ek = _accepts(fn)
            res.evaluations += 1
            res.count("labels:%s:%s" % (pname, "accept" if ok else "reject"))
            case = {"kind": "label", "field": f, "s": s, "form": form, "path": pname}
            if ok and not inside:
                res.violation("C16:labels.%s:%s" % (f, L.classify(s, dom)),
                              "label %s accepts a value outside its documented format" % f, case,
                              expected="rejected", observed="stored %r" % (getattr(lab, f),))
            elif not ok and inside:
                res.violation("C16:labels.%s:%s.%s:rejects-member" % (f, pname, form),
                              "label %s rejects a value of its documented format on path %s" % (f, pname), case,
                              expected="accepted", observed="rejected with " + str(ek))
            elif ok:
                if getattr(lab, f) != v:
                    res.violation("C16:labels.%s:%s.%s:stored-differs" % (f, pname, form), "stored label differs from the accepted value",
                                  case, expected=v, observed=getattr(lab, f))
                ok2, lab2, ek2 = _accepts(lambda: Labels.from_json(lab.to_json()))
                if not ok2 or lab2 is None or lab2.__dict__ != lab.__dict__:
                    res.violation("C16:labels.%s:reencode" % f, "an accepted label is rejected or changed by to_json/from_json", case,
                                  expected="same object", observed=ek2 or str(lab2))



# ---------------------------------------------------------------- values of the wrong type, keys that are not fields

class _S(str):
    pass


WRONG_TYPED = {"int": 100, "int-big": 5000, "float": 1.5, "bool": True, "bytes": b"100", "bytearray": bytearray(b"100"), "tuple": ("100",),
               "set": {"100"}, "dict": {"a": "1"}, "[int]": [100], "[bytes]": [b"100"], "[tuple]": [("100",)], "[str,int]": ["100", 100],
               "[int,str]": [100, "100"], "[None]": [None], "[[str]]": [["100"]], "[dict]": [{"a": 1}], "[set]": [{"1"}], "[float]": [1.5],
               "[bool]": [True], "[str,bytes]": ["a", b"a"], "strsub": _S("100"), "[strsub]": [_S("100")]}


def _is_strs(v):
    return isinstance(v, str) or (isinstance(v, list) and all(isinstance(x, str) for x in v))


def check_label_types(I, res, fields):
    """the value arrives as something that is not a str / list of str: it must not be stored (and what is stored must encode)"""
    Labels = I.cl.Labels
    for f in fields:
        dom = L.LABEL_DOMAIN.get(f)
        for nm, v in WRONG_TYPED.items():
            for pname, fn in label_paths(I, f, v).items():
                as_seen = v
                if pname in ("json", "decode"):
                    if not dumps_facts(v)[0]:
                        continue
                    as_seen = json.loads(json.dumps(v))          # what the decoder is handed
                ok, lab, ek = _accepts(fn)
                res.evaluations += 1
                res.count("types:%s:%s" % (pname, "accept" if ok else "reject"))
                case = {"kind": "ltype", "field": f, "value": nm, "path": pname}
                if not ok or lab is None:
                    continue
                got = getattr(lab, f, None)
                if got is None:
                    continue
                inside = _is_strs(as_seen) and (dom is None or all(dom(x) for x in ([as_seen] if isinstance(as_seen, str) else as_seen)))
                if not inside:
                    res.violation("C16:labels.%s:%s:non-string-stored" % (f, pname), "a label value that is not a str / list of str is stored",
                                  case, expected="rejected", observed=repr(got)[:80])
                ok2, _, ek2 = _accepts(lambda: Labels.from_json(lab.to_json()))
                if not ok2:
                    res.violation("C16:labels.%s:%s:accepted-but-cannot-be-encoded" % (f, pname),
                                  "an accepted label value cannot be encoded / decoded again", case, observed=ek2)


def check_label_keys(I, res):
    """keyword names that are attributes of the class but not label fields (to_json, VALIDATORS, update, ...)"""
    Labels = I.cl.Labels
    fields = set(Labels().__dict__)
    keys = [k for k in dir(Labels) if k not in fields and not (k.startswith("__") and k not in ("__doc__", "__module__", "__dict__", "__class__"))]
    for key in keys + ["nosuchfield", "Vlan", "vlan "]:
        for v in ("x", ["x"]):
            for pname, fn in label_paths(I, key, v).items():
                ok, lab, ek = _accepts(fn)
                res.evaluations += 1
                res.count("keys:%s:%s" % (pname, "accept" if ok else "reject"))
                case = {"kind": "lkey", "key": key, "list": isinstance(v, list), "path": pname}
                if ok and lab is not None and key in lab.__dict__:
                    res.violation("C16:labels:%s:non-field-key-stored" % pname, "a keyword that is not a label field is stored on the Labels object",
                                  case, expected="rejected (or skipped when decoding)", observed="%s=%r" % (key, lab.__dict__[key]))
                if ok and lab is not None:
                    ok2, _, ek2 = _accepts(lambda: Labels.from_json(lab.to_json()))
                    if not ok2:
                        res.violation("C16:labels:%s:non-field-key-breaks-encoding" % pname, "after a non-field keyword the object cannot be encoded", case,
                                      observed=ek2)
        # shadowing a validator table must not switch the validator off for the next field
        for mk in (lambda: Labels(**{key: "x", "vlan": "99999"}), lambda: Labels(**{key: ["x"], "mac": "zz"}),
                   lambda: Labels.update(Labels(local_name="p"), **{key: "x", "vlan": "99999"})):
            ok, lab, ek = _accepts(mk)
            res.evaluations += 1
            if ok and lab is not None and (lab.vlan == "99999" or lab.mac == "zz"):
                res.violation("C16:labels:non-field-key-disables-validator", "a non-field keyword switched off the validation of the next field",
                              {"kind": "lkey", "key": key, "list": False, "path": "ctor"}, observed=lab.to_json())


def check_misc_types(I, res):
    """tags, names, boot scripts and JSON blobs handed over as the wrong type (bytes, int, nested containers, str subclass)"""
    Tags = I.tg.Tags
    wrong = {"bytes": b"abc", "int": 5, "float": 1.5, "None": None, "dict": {"a": 1}, "set": {"abc"}, "nested": ["a", ["b"]], "[bytes]": [b"abc"],
             "[int]": ["a", 5], "(bytes,)": (b"a",), "[None]": [None], "bool": True, "gen": None}
    for nm, v in wrong.items():
        for pname, mk in (("arg", lambda: Tags(v)), ("mixed", lambda: Tags("ok", v)), ("json", lambda: Tags.from_json(json.dumps(v)))):
            if nm in ("bytes", "set", "[bytes]", "(bytes,)", "gen") and pname == "json":
                continue
            if nm == "gen":
                v = (x for x in ["a b"])
            ok, t, ek = _accepts(mk)
            res.evaluations += 1
            res.count("types:tags:%s" % ("accept" if ok else "reject"))
            if ok and t is not None and not all(isinstance(x, str) and L.tag_ok(x) for x in t.tags):
                res.violation("C16:tags:%s:non-string-stored" % pname, "a tag that is not a str of the documented pattern is stored",
                              {"kind": "mtype", "what": "tags", "value": nm, "path": pname}, observed=repr(t.tags)[:80])
    for cls in sorted(I.classes):
        for nm, v in (("bytes", b"ab"), ("int", 12), ("list", ["ab"]), ("tuple", ("ab",)), ("bytearray", bytearray(b"ab")), ("strsub", _S("ab")),
                      ("strsub-bad", _S("a\n")), ("bool", True)):
            for pname, fn in name_paths(I, cls, v).items():
                if pname.startswith("add_") or pname == "decode":
                    continue
                ok, stored, ek = _accepts(fn)
                res.evaluations += 1
                res.count("types:name:%s" % ("accept" if ok else "reject"))
                if ok and not (isinstance(stored, str) and L.NAME_DOMAIN[cls](stored)):
                    res.violation("C16:name.%s:%s:non-string-stored" % (cls, pname), "an element name that is not a str of the documented pattern is stored",
                                  {"kind": "mtype", "what": "name", "value": nm, "path": pname}, observed=repr(stored)[:60])
    for nm, v in (("bytes", b"x" * 10), ("bytes-long", b"x" * 2000), ("int", 5), ("list", ["x"] * 2000), ("strsub-long", _S("x" * 1024))):
        x = I.classes["NodeSliver"]()
        for pname, fn in (("set_boot_script", lambda: x.set_boot_script(v)), ("set_properties", lambda: x.set_properties(boot_script=v)),
                          ("elem", lambda: setattr(I.node, "boot_script", v))):
            ok, _, ek = _accepts(fn)
            res.evaluations += 1
            if ok:
                res.violation("C16:boot_script:%s:non-string-stored" % pname, "a boot script that is not a str under the limit is stored",
                              {"kind": "mtype", "what": "boot", "value": nm, "path": pname})
    for cls, m in sorted(L.JSON_MAX.items()):
        c = getattr(I.jd, cls)
        for nm, v in (("bytes", b"{}"), ("set", {1}), ("obj", object()), ("bytes-in-list", [b"a"]), ("strsub-long", _S('"' + "a" * m + '"')),
                      ("tuple-long", ("a" * m,)), ("nan", float("nan")), ("int-keys", {1: 2})):
            ok, d, ek = _accepts(lambda: c(v))
            res.evaluations += 1
            res.count("types:json:%s" % ("accept" if ok else "reject"))
            if ok and not (isinstance(d.json, str) and len(d.json) <= m and json_facts(d.json)):
                res.violation("C16:%s:ctor:non-json-stored" % cls, "a JSON blob whose stored text is not JSON within the limit",
                              {"kind": "mtype", "what": "json", "value": nm, "path": "ctor"}, observed=repr(d.json)[:60])


def tag_paths(I, s):
    Tags = I.tg.Tags

    def elem():
        I.node.tags = Tags(s)
        return I.node.tags

    def decode():
        from fim.graph.abc_property_graph import ABCPropertyGraph as G
        d = {G.PROP_NAME: "ab", G.PROP_TYPE: "VM", G.PROP_TAGS: json.dumps(["x", s])}
        return G.node_sliver_from_graph_properties_dict(d).get_tags()
    return {"arg": lambda: Tags(s), "list": lambda: Tags(["x", s]), "tuple": lambda: Tags(("x", s), "y"),
            "json": lambda: Tags.from_json(json.dumps([s])), "elem": elem, "decode": decode}


def check_tag(I, s, res):
    inside = L.tag_ok(s)
    for pname, fn in tag_paths(I, s).items():
        ok, t, ek = _accepts(fn)
        res.evaluations += 1
        res.count("tags:%s:%s" % (pname, "accept" if ok else "reject"))
        case = {"kind": "tag", "s": s, "path": pname}
        if ok and not inside:
            res.violation("C16:tags:%s" % L.classify(s, L.tag_ok), "a tag outside the documented pattern is stored", case,
                          expected="rejected", observed="stored %r" % (t.tags,))
        elif not ok and inside:
            res.violation("C16:tags:%s:rejects-member" % pname, "a tag of the documented pattern is rejected", case,
                          expected="accepted", observed=ek)
        elif ok:
            if s not in t.tags:
                res.violation("C16:tags:%s:stored-differs" % pname, "accepted tag is not what is stored", case, observed=t.tags)
            ok2, t2, ek2 = _accepts(lambda: I.tg.Tags.from_json(t.to_json()))
            if not ok2 or t2.tags != t.tags:
                res.violation("C16:tags:reencode", "accepted tags are rejected or changed by to_json/from_json", case, observed=ek2)


def _drop(t):
    """scratch topologies share one NetworkX store: remove them, or every later query gets slower"""
    try:
        t.graph_model.delete_graph()
    except Exception:
        pass


def name_paths(I, cls, s):
    c = I.classes[cls]

    def sp():
        x = c()
        x.set_properties(name=s)
        return x.resource_name

    def sp1():
        x = c()
        x.set_property("name", s)
        return x.resource_name

    def sn():
        x = c()
        x.set_name(s)
        return x.resource_name
    out = {"set_name": sn, "set_properties": sp, "set_property": sp1}
    fu = I.fu
    from fim.graph.abc_property_graph import ABCPropertyGraph as G
    if cls == "NodeSliver":
        def add_node():
            t = fu.ExperimentTopology()
            try:
                return t.add_node(name=s, site="S").get_property("name")
            finally:
                _drop(t)

        def rename():
            t = fu.ExperimentTopology()
            try:
                n = t.add_node(name="n0", site="S")
                n.name = s
                return n.get_property("name")
            finally:
                _drop(t)
        out.update({"add_node": add_node, "assign_name": rename,
                    "decode": lambda: G.node_sliver_from_graph_properties_dict({G.PROP_NAME: s, G.PROP_TYPE: "VM"}).resource_name})
    if cls == "ComponentSliver":
        def add_comp(mt):
            def f():
                t = fu.ExperimentTopology()
                try:
                    n = t.add_node(name="n0", site="S")
                    return n.add_component(name=s, model_type=mt).get_property("name")
                finally:
                    _drop(t)
            return f
        out["add_component_gpu"] = add_comp(fu.ComponentModelType.GPU_Tesla_T4)
        out["add_component_nic"] = add_comp(fu.ComponentModelType.SharedNIC_ConnectX_6)
        out["decode"] = lambda: G.component_sliver_from_graph_properties_dict({G.PROP_NAME: s, G.PROP_TYPE: "GPU"}).resource_name
    if cls == "NetworkServiceSliver":
        def add_ns():
            t = fu.ExperimentTopology()
            try:
                return t.add_network_service(name=s, nstype=fu.ServiceType.L2Bridge, interfaces=[]).get_property("name")
            finally:
                _drop(t)
        out["add_network_service"] = add_ns
    return out


def check_name(I, cls, s, res, deep=True):
    dom = L.NAME_DOMAIN[cls]
    inside = dom(s)
    for pname, fn in name_paths(I, cls, s).items():
        if not deep and pname.startswith("add_"):
            continue
        ok, stored, ek = _accepts(fn)
        res.evaluations += 1
        res.count("name:%s:%s" % (pname, "accept" if ok else "reject"))
        case = {"kind": "name", "cls": cls, "s": s, "path": pname}
        if ok and not inside:
            res.violation("C16:name.%s:%s" % (cls, L.classify(s, dom)), "an element name outside the documented pattern is stored", case,
                          expected="rejected", observed="stored %r" % (stored,))
        elif not ok and inside:
            res.violation("C16:name.%s:%s:rejects-member" % (cls, pname), "an element name of the documented pattern is rejected", case,
                          expected="accepted", observed=ek)
        elif ok and stored != s:
            res.violation("C16:name.%s:%s:stored-differs" % (cls, pname), "stored name differs from the accepted one", case, observed=stored)


def check_boot(I, s, res):
    inside = s is None or (isinstance(s, str) and len(s) < L.BOOT_LIMIT)
    from fim.graph.abc_property_graph import ABCPropertyGraph as G

    def sliver():
        x = I.classes["NodeSliver"]()
        x.set_boot_script(s)
        return x.boot_script

    def props():
        x = I.classes["NodeSliver"]()
        x.set_properties(boot_script=s)
        return x.boot_script

    def elem():
        I.node.boot_script = s
        return I.node.boot_script

    def decode():
        return G.node_sliver_from_graph_properties_dict({G.PROP_NAME: "ab", G.PROP_TYPE: "VM", G.PROP_BOOT_SCRIPT: s}).boot_script
    for pname, fn in (("set_boot_script", sliver), ("set_properties", props), ("elem", elem), ("decode", decode)):
        if s is None and pname == "elem":
            continue
        ok, stored, ek = _accepts(fn)
        res.evaluations += 1
        case = {"kind": "boot", "len": None if s is None else len(s), "ch": None if not s else s[0], "path": pname}
        if s and s != s[0] * len(s):
            case["text"] = s
        if ok and not inside:
            res.violation("C16:boot_script:%s:too-long-stored" % pname, "a boot script at or over the size limit is stored", case, observed=len(stored))
        elif not ok and inside:
            res.violation("C16:boot_script:%s:rejects-member" % pname, "a boot script under the size limit is rejected", case, observed=ek)
        elif ok and stored != s:
            res.violation("C16:boot_script:%s:stored-differs" % pname, "stored boot script differs", case)


def check_json(I, cls, data, res):
    """data: str (taken as JSON text) or any object"""
    c = getattr(I.jd, cls)
    m = L.JSON_MAX[cls]
    if isinstance(data, str):
        inside = len(data) <= m and json_facts(data)
    else:
        okd, n = dumps_facts(data)
        inside = okd and n <= m
    prop = {"MeasurementData": "mf_data", "UserData": "user_data", "LayoutData": "layout_data"}[cls]

    def elem():
        setattr(I.node, prop, data)
        return I.node.get_property(prop)
    for pname, fn in (("ctor", lambda: c(data)), ("elem", elem)):
        if data is None and pname == "elem":
            continue
        ok, d, ek = _accepts(fn)
        res.evaluations += 1
        res.count("json:%s:%s" % (pname, "accept" if ok else "reject"))
        case = {"kind": "json", "cls": cls, "data": data, "len": len(data) if isinstance(data, str) else None,
                "path": pname, "repr": canon(data)[:60]}
        if ok and not inside:
            res.violation("C16:%s:%s:oversize-or-invalid-stored" % (cls, pname), "a JSON blob over the size limit or not JSON is stored", case,
                          observed=len(d.json))
        elif not ok and inside:
            res.violation("C16:%s:%s:rejects-member" % (cls, pname), "a JSON blob within the size limit is rejected", case, observed=ek)
        elif ok:
            if len(d.json) > m or not json_facts(d.json):
                res.violation("C16:%s:%s:stored-oversize" % (cls, pname), "the stored JSON text is over the limit or not JSON", case, observed=len(d.json))
            ok2, d2, ek2 = _accepts(lambda: c(d.json))
            if not ok2 or d2.json != d.json:
                res.violation("C16:%s:reencode" % cls, "an accepted JSON blob is rejected when decoded again", case, observed=ek2)


def _readable(el, attr):
    """after a store the element must still be readable: property read, sliver build, and the whole topology's slivers"""
    el.get_property(attr)
    el.get_sliver()
    return True


def check_elem_name(I, kind, s, res):
    """every entry point that rewrites the name of an existing element (enumerated in Impl.name_entries; the translator pins
    the set of such methods), then read the element back"""
    el = I.elements()[kind]
    cls = Impl.SLIVER_OF[kind]
    dom = L.NAME_DOMAIN[cls]
    inside = dom(s)
    for entry, fn in I.name_entries(el).items():
        orig = I.raw_name(el)
        case = {"kind": "ename", "elem": kind, "entry": entry, "s": s}
        try:
            ok, _, ek = _accepts(lambda: fn(s))
            stored = I.raw_name(el)
            res.evaluations += 1
            res.count("ename:%s:%s" % (entry, "accept" if ok else "reject"))
            if ok and not inside:
                res.violation("C16:ename.%s.%s:%s" % (kind, entry, L.classify(s, dom)),
                              "%s() stores an element name outside the documented pattern" % entry, case,
                              expected="rejected", observed="stored %r" % (stored,))
            elif not ok and inside:
                res.violation("C16:ename.%s.%s:rejects-member" % (kind, entry), "an element name of the documented pattern is rejected", case,
                              expected="accepted", observed=ek)
            if ok:
                if stored != s:
                    res.violation("C16:ename.%s.%s:stored-differs" % (kind, entry), "the name in the graph is not the accepted one", case, observed=stored)
                ok2, _, ek2 = _accepts(lambda: _readable(el, "name"))
                if not ok2:
                    res.violation("C16:ename.%s.%s:unreadable-after-store" % (kind, entry),
                                  "after an accepted rename the element cannot be read back (get_property / get_sliver raise)", case,
                                  expected="readable", observed=ek2)
            elif stored != orig:
                res.violation("C16:ename.%s.%s:rejected-but-stored" % (kind, entry), "a rejected name was written to the graph anyway", case,
                              observed=stored)
        finally:
            I.restore_name(el, orig)



# ---------------------------------------------------------------- every entry point the translator discovers, probed

def build_val(I, dom, spec):
    """python value for a JSON-able case spec"""
    import types
    base = dom.split(":")[0]
    if base == "name":
        return spec["s"]
    if base == "boot_script":
        return spec.get("ch", "x") * spec["n"]
    if base in ("labels", "peer_labels", "label_allocations", "labelsobj"):
        f, v, form = spec["f"], spec["v"], spec.get("form", "obj")
        if form == "obj":
            return I.cl.Labels(**{f: v})
        return {"dict": {f: v}, "json": json.dumps({f: v}), "ns": types.SimpleNamespace(**{f: v}), "list": [v]}[form]
    if base == "tags":
        t, form = spec["s"], spec.get("form", "obj")
        if form == "obj":
            return I.tg.Tags(t)
        return {"list": [t], "str": t, "json": json.dumps([t]), "ns": types.SimpleNamespace(tags=[t]), "tuple": (t,)}[form]
    if base == "json":
        if spec.get("form", "obj") == "obj":
            return getattr(I.jd, dom.split(":")[1])(spec["data"])
        return spec["data"]
    if base == "wjson":
        return getattr(I.jd, dom.split(":")[1])(spec["data"]) if spec.get("form") == "obj" else spec["data"]
    if base in ("rawjson", "blob"):
        return spec["data"]
    if base in ("labelfield", "gatewayfield", "peer_labelfield"):
        return (spec["f"], spec["v"])
    if base == "tag":
        return spec["s"]
    if base == "gatewayobj":
        kw = {"ipv4": "10.0.0.1", "ipv4_subnet": "10.0.0.0/24", "mac": spec["mac"]}
        return I.cl.Labels(**kw) if spec.get("form", "obj") == "obj" else types.SimpleNamespace(ipv6=None, ipv6_subnet=None, **kw)
    raise core.Infra("no value builder for domain " + dom)


def spec_inside(I, dom, spec, own):
    """is the value inside the documented domain (independent recognisers of lib_c16)? None = the form itself is not a
    value of the parameter's type (a raw dict where a Labels object is expected): must not end up stored"""
    base = dom.split(":")[0]
    if base == "name":
        return L.NAME_DOMAIN[own](spec["s"])
    if base == "boot_script":
        return spec["n"] < L.BOOT_LIMIT
    if base in ("labels", "peer_labels", "label_allocations", "labelsobj", "labelfield", "gatewayfield", "peer_labelfield"):
        f, v = spec["f"], spec["v"]
        d = L.LABEL_DOMAIN.get(f)
        ok = True if d is None else (all(isinstance(x, str) and d(x) for x in v) if isinstance(v, list) else d(v))
        if base in ("labelfield", "gatewayfield", "peer_labelfield"):
            return ok
        return ok if spec.get("form", "obj") == "obj" else None
    if base == "tags":
        return L.tag_ok(spec["s"]) if spec.get("form", "obj") == "obj" else None
    if base == "tag":
        return L.tag_ok(spec["s"])
    if base in ("json", "rawjson", "blob", "wjson"):
        m = L.JSON_MAX[dom.split(":")[1]]
        data = spec["data"]
        ok = (len(data) <= m and json_facts(data)) if isinstance(data, str) else (dumps_facts(data)[0] and dumps_facts(data)[1] <= m)
        if base == "json" and spec.get("form", "obj") != "obj":
            return None
        return ok
    if base == "gatewayobj":
        return L.mac(spec["mac"]) if spec.get("form", "obj") == "obj" else None
    raise core.Infra("no oracle for domain " + dom)


def stored_of(I, res_obj, dom, spec):
    """what the store now holds for this domain, in a comparable form, and what the accepted value should look like there"""
    from fim.user.model_element import ModelElement
    from fim.slivers.base_sliver import BaseSliver
    base = dom.split(":")[0]
    key = EP.store_key(dom)
    if isinstance(res_obj, tuple) and res_obj[0] == "handle":
        return ("handle", I.raw_name(res_obj[2]))
    if isinstance(res_obj, ModelElement):
        raw = I.raw_props(res_obj).get(EP.GRAPH_PROP[key])
    elif isinstance(res_obj, BaseSliver):
        raw = getattr(res_obj, EP.SLIVER_FIELD[key])
        if raw is not None and base != "name" and base != "boot_script":
            raw = raw.to_json() if hasattr(raw, "to_json") else raw.json
    elif res_obj is None:
        raw = None
    elif hasattr(res_obj, "to_json"):
        raw = res_obj.to_json()
    elif hasattr(res_obj, "json"):
        raw = res_obj.json
    else:
        raw = res_obj
    return raw


def holds(dom, spec, raw):
    """does the stored text/value `raw` carry the case's value?"""
    base = dom.split(":")[0]
    if raw is None:
        return False
    try:
        if base == "name":
            return raw == spec["s"]
        if base == "boot_script":
            return raw == spec.get("ch", "x") * spec["n"]
        if raw == "":
            return False
        if base in ("labels", "peer_labels", "label_allocations", "labelsobj", "labelfield", "gatewayfield", "peer_labelfield"):
            d = json.loads(raw)
            return isinstance(d, dict) and d.get(spec["f"]) == spec["v"]
        if base in ("tags", "tag"):
            d = json.loads(raw)
            return isinstance(d, list) and spec["s"] in d
        if base in ("json", "rawjson", "blob", "wjson"):
            data = spec["data"]
            return raw == data if isinstance(data, str) else json.loads(raw) == json.loads(json.dumps(data))
        if base == "gatewayobj":
            return json.loads(raw).get("mac") == spec["mac"]
    except (ValueError, TypeError):
        return False
    return False


def still_readable(I, res_obj, dom):
    from fim.user.model_element import ModelElement
    from fim.slivers.base_sliver import BaseSliver
    from fim.graph.abc_property_graph import ABCPropertyGraph as G
    if isinstance(res_obj, ModelElement):
        res_obj.get_sliver()
        res_obj.get_property("name")
        return True
    if isinstance(res_obj, BaseSliver):
        d = G.base_sliver_to_graph_properties_dict(res_obj)
        if res_obj.resource_name is None:
            d["Name"] = "ab"
        s2 = type(res_obj)()
        G.set_base_sliver_properties_from_graph_properties_dict(s2, {k: v for k, v in d.items() if k != "Type"})
        return True
    if isinstance(res_obj, I.cl.Labels):
        return I.cl.Labels.from_json(res_obj.to_json()) == res_obj or res_obj.to_json() == ""
    if isinstance(res_obj, I.tg.Tags):
        return I.tg.Tags.from_json(res_obj.to_json()).tags == res_obj.tags
    if isinstance(res_obj, I.jd.JSONData):
        return type(res_obj)(res_obj.json).json == res_obj.json
    return True


def anywhere_in_graph(c, dom, spec):
    """after a rejection: no element of the scratch topology carries the value"""
    prop = EP.GRAPH_PROP.get(EP.store_key(dom))
    if prop is None:
        return False
    return any(holds(dom, spec, p.get(prop)) for p in c.all_props())



# ---------------------------------------------------------------- whatever ends up in the graph is a member

CLASS_SLIVER = {"NetworkNode": "NodeSliver", "CompositeNode": "CompositeNodeSliver", "Component": "ComponentSliver",
                "ConnectionPoint": "InterfaceSliver", "NetworkService": "NetworkServiceSliver", "Link": "NetworkLinkSliver"}
JSON_PROPS = {"UserData": "UserData", "MeasurementData": "MeasurementData", "LayoutData": "LayoutData"}


def graph_invalid(c):
    """every element of the scratch topology - also the ones the library created on its own with names it composed (derived
    services, ServicePorts, links, interfaces of components / facilities / switches, sub-interfaces): name against the pattern of
    its class, every labels property field by field, tags, boot script, JSON blobs. -> list of (what, element name, value)"""
    bad = []
    gm = c.t.graph_model
    try:
        ids = gm.list_all_node_ids()
    except Exception:
        return bad
    for nid in ids:
        classes, props = gm.get_node_properties(node_id=nid)
        cls = next((CLASS_SLIVER[x] for x in classes if x in CLASS_SLIVER), None)
        nm = props.get("Name")
        if cls is None:
            continue
        if not isinstance(nm, str) or not L.NAME_DOMAIN[cls](nm):
            bad.append(("name." + cls, nm, nm))
        for prop in ("Labels", "PeerLabels", "LabelAllocations"):
            raw = props.get(prop)
            if raw in (None, "", "None"):
                continue
            try:
                d = json.loads(raw)
            except ValueError:
                bad.append((prop + ":not-json", nm, raw))
                continue
            if not isinstance(d, dict):
                bad.append((prop + ":not-a-dict", nm, raw))
                continue
            for f, v in d.items():
                dom = L.LABEL_DOMAIN.get(f)
                vs = v if isinstance(v, list) else [v]
                if f not in c.I.fields or not all(isinstance(x, str) and (dom is None or dom(x)) for x in vs):
                    bad.append(("%s.%s" % (prop, f), nm, v))
        raw = props.get("Tags")
        if raw not in (None, "", "None"):
            try:
                t = json.loads(raw)
                if not (isinstance(t, list) and all(isinstance(x, str) and L.tag_ok(x) for x in t)):
                    bad.append(("Tags", nm, raw))
            except ValueError:
                bad.append(("Tags:not-json", nm, raw))
        bs = props.get("BootScript")
        if bs is not None and not (isinstance(bs, str) and len(bs) < L.BOOT_LIMIT):
            bad.append(("BootScript", nm, len(bs)))
        for prop, jc in JSON_PROPS.items():
            raw = props.get(prop)
            if raw is not None and not (isinstance(raw, str) and len(raw) <= L.JSON_MAX[jc] and json_facts(raw)):
                bad.append((prop, nm, len(raw)))
    return bad


def sweep(c, entry, variant, dom, case, res):
    for what, nm, val in graph_invalid(c):
        res.violation("C16:graph.%s:stored-outside-domain:via.%s" % (what, entry),
                      "after %s an element of the topology holds a %s outside its documented domain" % (entry, what.split(".")[0].split(":")[0]),
                      case, expected="every stored value is a member", observed="%r on element %r" % (val if not isinstance(val, str) else val[:60], (nm or "")[:60]))
    # and every element can be rebuilt from the graph
    gm = c.t.graph_model
    try:
        ids = gm.list_all_node_ids()
    except Exception:
        ids = []
    for nid in ids:
        classes, props = gm.get_node_properties(node_id=nid)
        fn = {"NetworkNode": gm.build_deep_node_sliver, "Component": gm.build_deep_component_sliver, "ConnectionPoint": gm.build_deep_interface_sliver,
              "NetworkService": gm.build_deep_ns_sliver, "Link": gm.build_deep_link_sliver}
        for k, f in fn.items():
            if k in classes:
                ok, _, ek = _accepts(lambda: f(node_id=nid))
                if not ok:
                    res.violation("C16:graph.%s:cannot-be-decoded:via.%s" % (k, entry), "after %s an element of the topology cannot be rebuilt from the graph" % entry,
                                  case, expected="decodable", observed="%s on %r" % (ek, (props.get("Name") or "")[:60]))



# ---------------------------------------------------------------- names the library composes from several caller inputs

def scenario(I, names, res):
    """node + component with interfaces + service connected to them + peering + facility + switch + sub-interface, with the given
    names; each step may be rejected (derived names must fit the other class's pattern - by design), but whatever is in the
    graph afterwards - also the elements the library named itself - has to be a member and decodable"""
    fu = I.fu
    c = EP.C(I)
    case = {"kind": "scenario", "names": names}
    steps = {}

    def step(k, f):
        ok, r, ek = _accepts(f)
        steps[k] = r if ok else None
        res.count("scenario:%s:%s" % (k, "accept" if ok else "reject"))
        return steps[k]
    try:
        n1 = step("node", lambda: c.t.add_node(name=names["node"], site="S1"))
        n2 = step("node2", lambda: c.t.add_node(name=names["node"] + "2", site="S1")) or step("node2b", lambda: c.t.add_node(name="n2", site="S1"))
        mt = getattr(fu.ComponentModelType, names.get("model", "SmartNIC_ConnectX_6"))
        c1 = n1 and step("comp", lambda: n1.add_component(name=names["comp"], model_type=mt))
        c2 = n2 and step("comp2", lambda: n2.add_component(name=names["comp"], model_type=mt))
        ifs = [x.interface_list[0] for x in (c1, c2) if x is not None and len(x.interface_list) > 0]
        step("service", lambda: c.t.add_network_service(name=names["svc"], nstype=fu.ServiceType.L2Bridge, interfaces=ifs))
        if c1 is not None and len(c1.interface_list) > 1 and c1.interface_list[1].type == fu.InterfaceType.DedicatedPort:
            step("child", lambda: c1.interface_list[1].add_child_interface(name=names["child"], labels=I.cl.Labels(vlan="100")))
        a = step("l3a", lambda: c.t.add_network_service(name=names["svc"] + "a", nstype=fu.ServiceType.L3VPN, interfaces=[]))
        b = step("l3b", lambda: c.t.add_network_service(name=names["svc"] + "b", nstype=fu.ServiceType.L3VPN, interfaces=[]))
        if a is not None and b is not None:
            step("peer", lambda: a.peer(b))
        step("facility", lambda: c.t.add_facility(name=names["node"] + "f", site="S2"))
        step("switch", lambda: c.t.add_switch(name=names["node"] + "w", site="S3", nports=2))
        res.evaluations += 1
        sweep(c, "scenario", "", "name", case, res)
    finally:
        c.close()


def scenario_oracle(ctx, I, res, scale=1):
    rng = ctx.sub_rng("scenario")
    models = ["SmartNIC_ConnectX_6", "SharedNIC_ConnectX_6", "FPGA_Xilinx_U280", "GPU_Tesla_T4"]
    det = [{"node": "n1", "comp": "a b", "svc": "s1", "child": "c 1"},
           {"node": "n1", "comp": "c" * 246, "svc": "s" * 255, "child": "c" * 255},
           {"node": "n1", "comp": "c" * 252, "svc": "s" * 254, "child": "x"},
           {"node": "n" * 254, "comp": "c" * 252, "svc": "sv", "child": "a+b"},
           {"node": "n" * 250, "comp": "nic", "svc": "s.1", "child": "ch"},
           {"node": "n" * 124, "comp": "c" * 125, "svc": "s_1", "child": "ch"},
           {"node": "n-1.x", "comp": "c_1 x", "svc": "sv-1", "child": "a:b/c"}]
    for d in det:
        for m in models[:3]:
            scenario(I, dict(d, model=m), res)
    for _ in range(ctx.scale(12, 120) * scale):
        node = rng.choice(L.name_candidates("NodeSliver", rng, 40))
        comp = rng.choice(L.name_candidates("ComponentSliver", rng, 40))
        scenario(I, {"node": node, "comp": comp, "svc": rng.choice(L.name_candidates("NetworkServiceSliver", rng, 40)),
                     "child": rng.choice(L.name_candidates("InterfaceSliver", rng, 40)), "model": rng.choice(models)}, res)


def check_entry(I, entry, variant, own, dom, spec, res):
    pr = EP.PROBES[entry]
    if EP.overridden(entry, dom, spec):
        return
    inside = spec_inside(I, dom, spec, own)
    case = {"kind": "entry", "entry": entry, "variant": variant, "own": own, "dom": dom, "spec": spec}
    sig = "C16:entry.%s%s.%s" % (entry, "[%s]" % variant if variant else "", dom)
    try:
        val = build_val(I, dom, spec)
    except Exception:
        return                    # the value cannot even be built as the parameter's type (the constructor rejected it): nothing to hand over
    c = EP.C(I)
    try:
        _check_entry(I, c, pr, entry, variant, own, dom, spec, val, inside, case, sig, res)
    finally:
        c.close()


def _check_entry(I, c, pr, entry, variant, own, dom, spec, val, inside, case, sig, res):
    ok, obj, ek = _accepts(lambda: pr.run(c, variant, dom, val))
    sweep(c, entry, variant, dom, case, res)
    res.evaluations += 1
    res.count("entry:%s:%s" % (dom.split(":")[0], "accept" if ok else "reject"))
    if ok:
        raw = stored_of(I, obj, dom, spec)
        if isinstance(raw, tuple):      # a handle: nothing may have been written
            return
        has = holds(dom, spec, raw)
        if inside is True and not has:
            res.violation(sig + ":stored-differs", "%s accepted a value but the store does not hold it as given" % entry, case,
                          expected="stored as given", observed=repr(raw)[:120])
        elif inside is not True and has:
            what = L.classify(spec["s"], L.NAME_DOMAIN[own]) if dom == "name" else ("outside-domain" if inside is False else "wrong-type")
            res.violation(sig + ":" + what + "-stored", "%s stores a value outside its documented domain" % entry, case,
                          expected="rejected", observed="stored %r" % (raw,))
        if has:
            ok2, _, ek2 = _accepts(lambda: still_readable(I, obj, dom))
            if not ok2:
                res.violation(sig + ":unreadable-after-store", "after %s accepted a value the element cannot be decoded again" % entry, case,
                              expected="readable", observed=ek2)
    else:
        if inside is True:
            if dom == "name" and not EP.derived_ok(entry, variant, spec["s"]):
                res.violation("C16:name.%s:%s:rejects-member-derived-name" % (own, entry),
                              "a name of the element's own pattern is rejected because a name derived from it must match another class's pattern",
                              case, expected="accepted", observed=ek)
            else:
                res.violation(sig + ":rejects-member", "%s rejects a value inside its documented domain" % entry, case,
                              expected="accepted", observed=ek)
        if c.el is not None and dom == "name" and c.el.name != I.raw_name(c.el):
            res.violation("C16:entry.%s.name:handle-keeps-rejected-name" % entry,
                          "%s raised, the graph keeps the old name, but the element object now answers with the rejected name" % entry, case,
                          expected=I.raw_name(c.el), observed=c.el.name)
        if anywhere_in_graph(c, dom, spec):
            res.violation(sig + ":rejected-but-stored", "%s raised, but an element of the topology carries the value" % entry, case,
                          observed=ek)


LBL_PROBE_FIELDS = ("vlan", "mac", "ipv4", "bdf", "numa", "asn", "vlan_range", "ipv6_subnet", "usb_id", "local_name")


def entry_specs(I, dom, own, rng, n):
    """members and non-members for one domain (deterministic corner cases first)"""
    base = dom.split(":")[0]
    out = []
    if base == "name":
        return [{"s": s} for s in L.name_candidates(own, rng, max(n, L.NAME_HEAD))]
    if base == "boot_script":
        return [{"n": k, "ch": ch} for k in (0, 1, 1023, 1024, 1025, 3000) for ch in ("x", "é")][:max(6, n)]
    if base in ("labels", "peer_labels", "label_allocations", "labelsobj"):
        for f in rng.sample(LBL_PROBE_FIELDS, 4) + ["vlan"]:
            cands = [good_example(f)] + L.candidates(f, rng, 30)
            good = [s for s in cands if L.LABEL_DOMAIN.get(f) is None or L.LABEL_DOMAIN[f](s)]
            bad = [s for s in cands if L.LABEL_DOMAIN.get(f) is not None and not L.LABEL_DOMAIN[f](s)]
            for s in good[:2]:
                out.append({"f": f, "v": s, "form": "obj"})
                out.append({"f": f, "v": [good_example(f), s], "form": "obj"})
            for s in bad[:3]:
                for form in ("dict", "json", "ns", "list"):
                    out.append({"f": f, "v": s, "form": form})
        return out[:max(n, 12)]
    if base == "tags":
        cands = L.tag_candidates(rng, 30)
        good = [s for s in cands if L.tag_ok(s)]
        bad = [s for s in cands if not L.tag_ok(s)]
        for s in good[:3]:
            out.append({"s": s, "form": "obj"})
        for s in bad[:4]:
            for form in ("list", "str", "json", "ns", "tuple"):
                out.append({"s": s, "form": form})
        return out[:max(n, 10)]
    if base in ("json", "rawjson", "blob", "wjson"):
        m = L.JSON_MAX[dom.split(":")[1]]
        datas = [{"a": 1}, ["a" * (m - 4)], ["a" * (m - 3)], '"' + "a" * (m - 2) + '"', '"' + "a" * (m - 1) + '"', "nope", "{}", [], "é" * 10,
                 ["é" * ((m - 4) // 6)], ["é" * ((m - 4) // 6 + 1)], {"k": [1, 2, {"z": None}]}]
        for dta in datas:
            if base in ("json", "wjson"):
                out.append({"data": dta, "form": "obj"})
                out.append({"data": dta, "form": "raw"})
            else:
                out.append({"data": dta})
        return out
    if base in ("labelfield", "gatewayfield", "peer_labelfield"):
        fields = ("ipv4", "ipv4_subnet", "mac", "ipv6", "ipv6_subnet") if base == "gatewayfield" else rng.sample(LBL_PROBE_FIELDS, 4) + ["vlan"]
        for f in fields:
            for s in [good_example(f)] + L.candidates(f, rng, max(6, n // 3)):
                out.append({"f": f, "v": s})
                if base != "gatewayfield":
                    g = good_example(f)
                    out.append({"f": f, "v": rng.choice([[s], [g, s], [s, g], [g, g, s]])})
        return out
    if base == "tag":
        return [{"s": s} for s in L.tag_candidates(rng, max(n, 24))]
    if base == "gatewayobj":
        for m in ["00:11:22:33:44:55", "aa:BB:cc:DD:ee:FF"]:
            out.append({"mac": m, "form": "obj"})
        for m in ["00:11:22:33:44:55\n", "zz", "00-11-22-33-44-55", ""]:
            out.append({"mac": m, "form": "ns"})
        return out
    raise core.Infra("no case generator for " + dom)


def entry_points_oracle(ctx, I, res, scale=1):
    rng = ctx.sub_rng("entries")
    n = ctx.scale(8, 40) * scale
    for entry in sorted(EP.PROBES):
        pr = EP.PROBES[entry]
        for variant, own in pr.variants:
            for dom in pr.domains:
                if not EP.applicable(entry, variant, dom):
                    continue
                aliased = 0
                specs = entry_specs(I, dom, own or "NodeSliver", rng, n)
                for hist in refused_histories(I, dom, own or "NodeSliver", specs):
                    res.nontrivial.add(canon([entry, variant, dom, "hist", hist])[:300])
                    check_refused(I, entry, variant, own or "NodeSliver", dom, hist, res)
                for spec in specs:
                    res.nontrivial.add(canon([entry, variant, dom, spec])[:300])
                    check_entry(I, entry, variant, own or "NodeSliver", dom, spec, res)
                    if aliased < 2 * scale and spec_inside(I, dom, spec, own or "NodeSliver") is True:
                        before = res.hist.get("alias:%s" % dom.split(":")[0], 0)
                        check_alias(I, entry, variant, own or "NodeSliver", dom, spec, res)
                        aliased += res.hist.get("alias:%s" % dom.split(":")[0], 0) > before
        res.count("entry-point:" + entry)


# ---------------------------------------------------------------- histories on ONE kept target: accepted, refused, accepted
# Every entry point is also driven as a short history in one context whose target (the sliver / the model element the entry point
# works on) is created once and kept (EP.C(keep=True)): a call with a member, a call with a non-member (must be refused), a call
# with another member - and a history that starts with the refused call.  After every refused call NOTHING that was handed
# out as a target may carry the refused value, every kept target still encodes and decodes, and the whole scratch topology is
# swept.  A setter that writes before it checks, a bulk setter that applies what it got before the bad item, a decoder that fills
# a kept sliver and fails half-way, all leave an object that later passes the unchecked value on.

def check_refused(I, entry, variant, own, dom, hist, res):
    pr = EP.PROBES[entry]
    case = {"kind": "refused", "entry": entry, "variant": variant, "own": own, "dom": dom, "hist": hist}
    sig = "C16:refused.%s%s.%s" % (entry, "[%s]" % variant if variant else "", dom)
    c = EP.C(I, keep=True)
    refused_before = False
    try:
        for spec in hist:
            if EP.overridden(entry, dom, spec):
                return
            inside = spec_inside(I, dom, spec, own)
            try:
                val = build_val(I, dom, spec)
            except Exception:
                continue                  # the caller could not even build the value: no call happens
            ok, obj, ek = _accepts(lambda: pr.run(c, variant, dom, val))
            res.evaluations += 1
            res.count("refused:%s:%s" % (dom.split(":")[0], ("accept-after-refusal" if refused_before else "accept") if ok else "reject"))
            if ok != (inside is True):
                return                    # whether the call is accepted at all is judged by check_entry (derived names, wrong types)
            if ok:
                raw = stored_of(I, obj, dom, spec)
                if refused_before and not isinstance(raw, tuple) and not holds(dom, spec, raw):
                    res.violation(sig + ":member-not-stored-after-refused-call", "%s accepted a member after an earlier refused call on the same "
                                  "target, but the store does not hold it as given" % entry, case, expected="stored as given", observed=repr(raw)[:120])
                continue
            refused_before = True
            for o in list(c.objs):
                raw = stored_of(I, o, dom, spec)
                if holds(dom, spec, raw):
                    res.violation(sig + ":refused-but-stored-in-kept-target", "%s raised, but the kept %s it was applied to now holds the refused "
                                  "value" % (entry, type(o).__name__), case, expected="what it held before the refused call", observed=repr(raw)[:120])
                ok2, _, ek2 = _accepts(lambda: still_readable(I, o, dom))
                if not ok2:
                    res.violation(sig + ":undecodable-after-refused-call", "after %s refused a value the kept %s it was applied to can no longer be "
                                  "encoded and decoded" % (entry, type(o).__name__), case, expected="readable", observed=ek2)
            if anywhere_in_graph(c, dom, spec):
                res.violation(sig + ":rejected-but-stored", "%s raised, but an element of the topology carries the value" % entry, case, observed=ek)
            sweep(c, entry, variant, dom, case, res)
    finally:
        c.close()


def refused_histories(I, dom, own, specs):
    good = [x for x in specs if spec_inside(I, dom, x, own) is True]
    bad = [x for x in specs if spec_inside(I, dom, x, own) is False]
    if dom.split(":")[0] == "boot_script":
        bad = sorted(bad, key=lambda x: x["n"])              # at the limit first
        good = sorted(good, key=lambda x: -x["n"])           # the longest allowed first
    if not good or not bad:
        return []
    out = [[good[0], bad[0], good[-1]], [bad[-1], good[0]]]
    if len(bad) > 2:
        out.append([good[-1], bad[1], bad[0]])
    return out


# ---------------------------------------------------------------- accepted by a sliver -> encoded -> decoded, every kind of sliver
# "whatever was accepted can be encoded and decoded again": a kept sliver of each of the five kinds takes the value through
# its own setter, is encoded with each codec of its kind (graph-property dictionary; JSON for node and service slivers) and decoded;
# the decoded sliver holds the same value.  Values: the sentinel look-alikes of lib_c16 (members that spell a placeholder of
# some layer), boundary sizes, ordinary members.

CODEC_KINDS = {"NodeSliver": ("node", "VM"), "ComponentSliver": ("component", "GPU"), "InterfaceSliver": ("interface", "TrunkPort"),
               "NetworkLinkSliver": ("link", "Patch"), "NetworkServiceSliver": ("network_service", "L2Bridge")}
CODEC_PROPS = ("name", "boot_script", "tags", "labels", "user_data", "mf_data", "layout_data", "details")


def codecs(cls):
    from fim.graph.abc_property_graph import ABCPropertyGraph as G
    from fim.slivers.json import JSONSliver as J
    k = CODEC_KINDS[cls][0]
    out = {"props": (getattr(G, k + "_sliver_to_graph_properties_dict"), getattr(G, k + "_sliver_from_graph_properties_dict"))}
    if cls == "NodeSliver":
        out["json"] = (J.sliver_to_json, J.node_sliver_from_json)
    if cls == "NetworkServiceSliver":
        out["json"] = (J.sliver_to_json, J.network_service_sliver_from_json)
    return out


def _held(I, s, prop):
    v = {"name": "resource_name"}.get(prop, prop)
    x = getattr(s, v, None)
    if x is None:
        return None
    if prop == "tags":
        return list(x.tags)
    if prop == "labels":
        return I.dump(x)
    if prop in ("user_data", "mf_data", "layout_data"):
        return x.json
    return x


def sliver_types(I, cls):
    """names of all members of the type enum of a sliver class (the common ones and the rare ones)"""
    s = I.classes[cls]()
    t = s.type_from_str(CODEC_KINDS[cls][1])
    return [m.name for m in type(t)]


def check_codec(I, cls, prop, raw, res, typ=None):
    """raw: name / boot script / details text / tag / [field, value] / JSON text or object; typ: member of the class's type enum"""
    c = I.classes[cls]
    s = c()
    s.set_type(s.type_from_str(typ or CODEC_KINDS[cls][1]))
    try:
        if prop != "name":
            s.set_name("ab")
        if prop == "name":
            s.set_name(raw)
        elif prop == "boot_script":
            s.set_boot_script(raw)
        elif prop == "details":
            s.set_details(raw)
        elif prop == "tags":
            s.set_tags(I.tg.Tags(raw))
        elif prop == "labels":
            s.set_labels(I.cl.Labels(**{raw[0]: raw[1]}))
        else:
            s.set_property(prop, {"user_data": I.jd.UserData, "mf_data": I.jd.MeasurementData, "layout_data": I.jd.LayoutData}[prop](raw))
    except Exception:
        return                        # not accepted: the accept side is judged by the other checks
    held = _held(I, s, prop)
    for cname, (enc, dec) in sorted(codecs(cls).items()):
        case = {"kind": "codec", "cls": cls, "prop": prop, "raw": raw, "codec": cname}
        if typ:
            case["typ"] = typ
        res.evaluations += 1
        res.count("codec:%s:%s" % (prop, cname))
        ok, back, ek = _accepts(lambda: dec(enc(s)))
        sig = "C16:codec.%s.%s.%s" % (cls, prop, cname)
        if not ok:
            res.violation(sig + ":decode-rejects-accepted", "a %s accepted by %s is rejected when the sliver is encoded and decoded again"
                          % (prop, cls), case, expected="decodable", observed=ek)
        elif _held(I, back, prop) != held or (typ and str(back.get_type()) != str(s.get_type())):
            res.violation(sig + ":decoded-differs", "a %s accepted by %s comes back as another value when the sliver is encoded and decoded"
                          % (prop, cls), case, expected=repr(held)[:100], observed=repr(_held(I, back, prop))[:100])


def codec_values(I, cls, rng, n):
    """(prop, raw) pairs: sentinel look-alikes first"""
    dom = L.NAME_DOMAIN[cls]
    words = L.sentinel_words()
    out = [("name", w) for w in words if dom(w)]
    out += [("name", w) for w in L.name_candidates(cls, rng, L.NAME_HEAD + n)[len(L.NAME_SENTINELS):] if dom(w)]
    texts = L.LITERAL_SENTINELS + rng.sample(L.code_sentinels(), min(4, len(L.code_sentinels()))) + \
        ["", " ", "\n", "x" * (L.BOOT_LIMIT - 1), "é" * (L.BOOT_LIMIT - 1), "#!/bin/bash\necho None\n", "None\n", "\nNone"]
    out += [("boot_script", w) for w in texts]
    out += [("tags", w) for w in words if L.tag_ok(w)][:n + 12]
    for f in ("local_name", "device_name", "instance", "region", "account_id", "bgp_key"):
        d = L.LABEL_DOMAIN.get(f, lambda x: True)
        for w in [x for x in words if d(x)][:8]:
            out.append(("labels", [f, w]))
            out.append(("labels", [f, [w, w]]))
    for prop, jc in (("user_data", "UserData"), ("mf_data", "MeasurementData"), ("layout_data", "LayoutData")):
        for t in ("null", '"None"', "0", "false", '""', "[]", "{}", '{"None": null}', "[null]", " {} "):
            out.append((prop, t))
        for o in (None, "None", 0, False, "", [], {}, [None]):
            out.append((prop, o))
    return out


def codec_oracle(ctx, I, res, scale=1):
    rng = ctx.sub_rng("codec")
    for cls in sorted(CODEC_KINDS):
        for prop, raw in codec_values(I, cls, rng, ctx.scale(6, 40) * scale):
            res.nontrivial.add(canon(["codec", cls, prop, raw])[:300])
            check_codec(I, cls, prop, raw, res)
        for typ in sliver_types(I, cls):                 # every member of the type enum, not only the common one
            for prop, raw in (("name", "None"), ("name", "ab"), ("boot_script", "None"), ("boot_script", "x" * (L.BOOT_LIMIT - 1)), ("tags", "None"),
                              ("labels", ["local_name", "None"]), ("user_data", '"None"')):
                res.count("codec-type:%s:%s" % (cls, typ))
                check_codec(I, cls, prop, raw, res, typ=typ)

# ---------------------------------------------------------------- accepted, then mutated through an alias
# Every validated CONTAINER value (a tag list, a list-valued label field, a JSON blob built from a Python object) is handed to every
# entry point built from a mutable object the caller keeps; after the entry point accepted it the caller changes ITS object in
# place (append / item assignment / insert / extend / += / slice assignment with a NON-MEMBER) and the stored value is read, encoded
# and decoded again.  A store that kept the caller's object now holds a value no check ever saw.

LABEL_DOMS = ("labels", "peer_labels", "label_allocations", "labelsobj")
FIELD_DOMS = ("labelfield", "peer_labelfield", "gatewayfield")
BAD_TAG = "not a valid tag!\n"


def _bad_label(f):
    d = L.LABEL_DOMAIN.get(f)
    for s in ("zz\n", "not a value", "-1", ""):
        if d is not None and not d(s):
            return s
    return None


def alias_value(I, dom, spec, entry, variant):
    """-> (value for the entry point, the caller-side mutable object it was built from, the non-member to put there afterwards,
    the API that object was handed to) or None when this (domain, form) has no caller-side mutable container"""
    base = dom.split(":")[0]
    form = spec.get("form", "obj")
    if base == "tags" and form == "obj":
        lst = [spec["s"], "second"]
        return I.tg.Tags(lst), lst, BAD_TAG, "Tags.__init__"
    if base == "tag" and entry == "Tags.__init__" and variant == "arg":
        lst = [spec["s"], "second"]
        return lst, lst, BAD_TAG, entry
    if base in LABEL_DOMS + FIELD_DOMS:
        f, v = spec["f"], spec["v"]
        bad = _bad_label(f)
        if bad is None or (base in LABEL_DOMS and form != "obj"):
            return None
        lst = list(v) if isinstance(v, list) else [good_example(f), v]
        if base in FIELD_DOMS:
            return (f, lst), lst, bad, entry
        return I.cl.Labels(**{f: lst}), lst, bad, "Labels.__init__"
    if base in ("json", "wjson", "rawjson", "blob") and not isinstance(spec["data"], str):
        data = json.loads(json.dumps(spec["data"]))
        cls = dom.split(":")[1]
        grow = "a" * (L.JSON_MAX[cls] + 1)
        if base in ("json", "wjson"):
            if form != "obj":
                return None
            return getattr(I.jd, cls)(data), data, grow, cls + ".__init__"
        return data, data, grow, entry
    return None


MUTATIONS = ["append", "setitem", "insert", "extend", "iadd", "slice"]


def mutate_arg(arg, bad, how):
    if isinstance(arg, dict):
        arg["zz-" + how] = bad
    elif how == "append":
        arg.append(bad)
    elif how == "setitem" and arg:
        arg[0] = bad
    elif how == "insert":
        arg.insert(0, bad)
    elif how == "extend":
        arg.extend([bad])
    elif how == "iadd":
        arg += [bad]
    else:
        arg[len(arg):] = [bad]


def _carries(dom, spec, raw, bad):
    """does the stored text now carry the non-member the caller put into ITS object after the acceptance?"""
    base = dom.split(":")[0]
    if raw is None or raw == "":
        return False
    try:
        if base in ("tags", "tag"):
            return bad in json.loads(raw)
        if base in LABEL_DOMS + FIELD_DOMS:
            v = json.loads(raw).get(spec["f"])
            return v == bad or (isinstance(v, list) and bad in v)
    except (ValueError, TypeError, AttributeError):
        return True
    return False


def check_alias(I, entry, variant, own, dom, spec, res):
    """accepted-then-mutated-by-alias (see above) for one entry point x domain x member value"""
    pr = EP.PROBES[entry]
    if EP.overridden(entry, dom, spec) or spec_inside(I, dom, spec, own) is not True:
        return
    case = {"kind": "alias", "entry": entry, "variant": variant, "own": own, "dom": dom, "spec": spec}
    try:
        built = alias_value(I, dom, spec, entry, variant)
    except Exception:
        return
    if built is None:
        return
    val, arg, bad, keeper = built
    c = EP.C(I)
    try:
        ok, obj, ek = _accepts(lambda: pr.run(c, variant, dom, val))
        if not ok:
            return                # rejects-member is check_entry's business
        raw0 = stored_of(I, obj, dom, spec)
        if isinstance(raw0, tuple):
            return
        res.evaluations += 1
        res.count("alias:%s" % dom.split(":")[0])
        for how in MUTATIONS:
            mutate_arg(arg, bad, how)
            raw = stored_of(I, obj, dom, spec)
            base = dom.split(":")[0]
            sig = "C16:alias.%s.%s" % (keeper, "labels" if base in LABEL_DOMS + FIELD_DOMS else ("tags" if base in ("tag", "tags") else "json"))
            case = dict(case, mutation=how)
            if _carries(dom, spec, raw, bad) or (base in ("json", "wjson", "rawjson", "blob") and raw != raw0):
                res.violation(sig + ":non-member-stored-after-accept",
                              "%s keeps the caller's mutable argument: after the value was accepted%s the caller changed its own object (%s) "
                              "and the stored value now holds a non-member that passed no check" % (
                                  keeper, "" if keeper == entry else " (and handed to %s)" % entry, how),
                              case, expected=repr(raw0)[:120], observed=repr(raw)[:120])
                ok2, _, ek2 = _accepts(lambda: still_readable(I, obj, dom))
                if not ok2:
                    res.violation(sig + ":undecodable-after-accept", "... and what is stored can no longer be encoded and decoded (%s)" % ek2, case,
                                  expected="readable", observed=ek2)
                return
    finally:
        c.close()


ELEM_ATTRS = ("tags", "boot_script", "user_data", "mf_data", "layout_data", "labels")


def elem_attr_entries(el, attr):
    out = {}
    if isinstance(getattr(type(el), attr, None), property) and getattr(type(el), attr).fset is not None:
        out["assign"] = lambda v: setattr(el, attr, v)
    if attr in type(el).list_properties():
        out["set_property"] = lambda v: el.set_property(attr, v)
        out["set_properties"] = lambda v: el.set_properties(**{attr: v})
    return out


def check_elem_attr(I, kind, attr, raw, res):
    """raw: tag string / boot script / JSON-able object / (field, string) for labels. The value handed to the element is built the
    way a caller has to build it (Tags(..), Labels(..), UserData(..) or the raw object where the setter wraps it)."""
    el = I.elements()[kind]
    wrap = {"tags": lambda: I.tg.Tags(raw), "boot_script": lambda: raw,
            "user_data": lambda: I.jd.UserData(raw), "mf_data": lambda: I.jd.MeasurementData(raw), "layout_data": lambda: I.jd.LayoutData(raw),
            "labels": lambda: I.cl.Labels(**{raw[0]: raw[1]})}[attr]
    if attr == "tags":
        inside = L.tag_ok(raw)
    elif attr == "boot_script":
        inside = len(raw) < L.BOOT_LIMIT
    elif attr == "labels":
        inside = L.LABEL_DOMAIN[raw[0]](raw[1])
    else:
        m = L.JSON_MAX[{"user_data": "UserData", "mf_data": "MeasurementData", "layout_data": "LayoutData"}[attr]]
        inside = (len(raw) <= m and json_facts(raw)) if isinstance(raw, str) else (dumps_facts(raw)[0] and dumps_facts(raw)[1] <= m)
    for entry, fn in elem_attr_entries(el, attr).items():
        case = {"kind": "eattr", "elem": kind, "attr": attr, "entry": entry, "raw": raw}
        ok, _, ek = _accepts(lambda: fn(wrap()))
        res.evaluations += 1
        res.count("eattr:%s:%s:%s" % (attr, entry, "accept" if ok else "reject"))
        if ok and not inside:
            res.violation("C16:eattr.%s.%s.%s:outside-domain-stored" % (kind, attr, entry), "an element property outside its documented domain is stored",
                          case, expected="rejected")
        elif not ok and inside:
            res.violation("C16:eattr.%s.%s.%s:rejects-member" % (kind, attr, entry), "an element property inside its documented domain is rejected",
                          case, expected="accepted", observed=ek)
        if ok:
            ok2, _, ek2 = _accepts(lambda: _readable(el, attr))
            if not ok2:
                res.violation("C16:eattr.%s.%s.%s:unreadable-after-store" % (kind, attr, entry),
                              "after an accepted store the element cannot be read back", case, observed=ek2)
            try:
                el.unset_property(attr)
            except Exception:
                pass


def run_oracle_case(I, c, res):
    k = c["kind"]
    if k == "mtype":
        check_misc_types(I, res)
    elif k == "scenario":
        scenario(I, c["names"], res)
    elif k == "ltype":
        check_label_types(I, res, [c["field"]])
    elif k == "lkey":
        check_label_keys(I, res)
    elif k == "entry":
        check_entry(I, c["entry"], c["variant"], c["own"], c["dom"], c["spec"], res)
    elif k == "refused":
        check_refused(I, c["entry"], c["variant"], c["own"], c["dom"], c["hist"], res)
    elif k == "codec":
        check_codec(I, c["cls"], c["prop"], c["raw"], res, typ=c.get("typ"))
    elif k == "alias":
        check_alias(I, c["entry"], c["variant"], c["own"], c["dom"], c["spec"], res)
    elif k == "ename":
        check_elem_name(I, c["elem"], c["s"], res)
    elif k == "eattr":
        check_elem_attr(I, c["elem"], c["attr"], tuple(c["raw"]) if c["attr"] == "labels" else c["raw"], res)
    elif k == "label":
        check_label(I, c["field"], c["s"], res)
    elif k == "tag":
        check_tag(I, c["s"], res)
    elif k == "name":
        check_name(I, c["cls"], c["s"], res)
    elif k == "boot":
        check_boot(I, c["text"] if "text" in c else (None if c.get("len") is None else (c.get("ch") or "x") * c["len"]), res)
    elif k == "json":
        data = c["data"]
        if data is None and c.get("len") is not None:
            data = '"' + "a" * (c["len"] - 2) + '"'
        check_json(I, c["cls"], data, res)


def corpus_oracle():
    out = []
    for fn in sorted(glob.glob(os.path.join(core.CORPUS_DIR, ID, "*.json"))):
        with open(fn) as f:
            out.extend(json.load(f).get("oracle", []))
    return out


def oracle(ctx, res, scale=1):
    I = impl()
    rng = ctx.sub_rng("oracle")
    for c in corpus_oracle():                       # past failures and the deterministic known-finding triggers first
        run_oracle_case(I, c, res)
    n = ctx.scale(60, 600) * scale
    for f in I.fields:
        k = n if f in L.LABEL_DOMAIN else 5
        for s in L.candidates(f, rng, k):
            if f not in L.LABEL_DOMAIN or s != good_example(f):
                res.nontrivial.add(canon(["label", f, s])[:300])
            check_label(I, f, s, res)
    for s in L.tag_candidates(rng, ctx.scale(60, 400) * scale):
        res.nontrivial.add(canon(["tag", s])[:300])
        check_tag(I, s, res)
    for cls in sorted(I.classes):
        for j, s in enumerate(L.name_candidates(cls, rng, ctx.scale(48, 250) * scale)):
            res.nontrivial.add(canon(["name", cls, s])[:300])
            check_name(I, cls, s, res, deep=(j < ctx.scale(38, 120)))
    # element level: every kind of element x every entry point that rewrites a validated property, with read-back
    m = ctx.scale(34, 120) * scale
    for knd, cls in sorted(Impl.SLIVER_OF.items()):
        for s in L.name_candidates(cls, rng, m):
            res.nontrivial.add(canon(["ename", knd, s])[:300])
            check_elem_name(I, knd, s, res)
        for s in L.tag_candidates(rng, m // 2):
            check_elem_attr(I, knd, "tags", s, res)
        for bs in ["x" * k for k in (0, 1023, 1024, 1025)] + ["None", "null", "0", "False", " "]:
            check_elem_attr(I, knd, "boot_script", bs, res)
        for attr, jc in (("user_data", "UserData"), ("mf_data", "MeasurementData"), ("layout_data", "LayoutData")):
            mx = L.JSON_MAX[jc]
            for obj in ({"a": 1}, ["a" * (mx - 4)], ["a" * (mx - 3)], '"' + "a" * (mx - 2) + '"', '"' + "a" * (mx - 1) + '"', "nope"):
                check_elem_attr(I, knd, attr, obj, res)
        for f in ("vlan", "mac", "ipv4", "bdf", "numa", "asn"):
            cands = L.candidates(f, rng, 40)
            for s in [good_example(f)] + rng.sample(cands, max(6, m // 6)):
                check_elem_attr(I, knd, "labels", (f, s), res)
    codec_oracle(ctx, I, res, scale)
    entry_points_oracle(ctx, I, res, scale)
    scenario_oracle(ctx, I, res, scale)
    check_label_types(I, res, ["vlan", "mac", "numa", "asn", "local_name", "device_name", "instance", "ipv6"] + rng.sample(I.fields, 3))
    check_label_keys(I, res)
    check_misc_types(I, res)
    for r in size_cases(rng):
        if r[0] == "boot" and (r[1] is None or isinstance(r[1], str)):
            check_boot(I, r[1], res)
        elif r[0] in ("jsonstr", "jsonobj"):
            check_json(I, r[1], r[2], res)
    res.sample({"oracle": "hand-written recogniser vs accept/reject on every path", "fields": len(I.fields), "paths": sorted(label_paths(I, "vlan", "1"))})


def search(ctx, res, broken):
    oracle(ctx, res, scale=5)


def replay(ctx, payload):
    from core import Result
    r = Result()
    run_oracle_case(impl(), payload["case"], r)
    want = payload.get("signature")
    for v in r.violations:
        print("  ", v["signature"], v["what"], v.get("observed"))
    return any(v["signature"] == want for v in r.violations) if want else bool(r.violations)
