"""C08 helpers: topology recipes built through the public API, canonical snapshots, the declarative
`owned` closure (brute force, independent of the removal code) and the removal operations.

A *recipe* is a JSON-able list of building calls; `build(recipe)` replays it on a fresh
ExperimentTopology (fresh GraphID each time, so that every removal is applied to its own copy).
Canonical node id = rank of the node in building order (internal ids are handed out sequentially),
so that the same recipe always yields the same canonical graph.
"""
import itertools

import fim.user as fu
from fim.user.topology import ExperimentTopology, SubstrateTopology
from fim.user.interface import Interface
from fim.slivers.capacities_labels import Labels, ReservationInfo
from fim.graph.abc_property_graph import ABCPropertyGraph

SITES = ["RENC", "UKY", "LBNL"]
NICS = {"shared": fu.ComponentModelType.SharedNIC_ConnectX_6, "smart6": fu.ComponentModelType.SmartNIC_ConnectX_6,
        "smart5": fu.ComponentModelType.SmartNIC_ConnectX_5, "gpu": fu.ComponentModelType.GPU_Tesla_T4,
        "nvme": fu.ComponentModelType.NVME_P4510}
# ... and every other model of the component catalog under its own name (read from the library: a new model is generated
# too).  What a model brings with it - how many ports, of which type, in a service of which name - is not written down
# here but observed once on a scratch topology (`catalog()`): the rare model with ports of its own (an FPGA) is then
# generated, connected and removed like the NICs.
for _m in fu.ComponentModelType:
    if _m not in NICS.values():
        NICS[_m.name] = _m
_CATALOG = {}


def catalog():
    """kind -> (number of ports, ports are DedicatedPorts, suffix of the name of the component's own service or None,
    ComponentType name); observed on a scratch topology, once per process."""
    if not _CATALOG:
        t = ExperimentTopology()
        try:
            for kind, m in NICS.items():
                c = t.add_node(name="nn", site="RENC").add_component(name="cc", model_type=m)
                ifs = c.interface_list
                nss = list(c.network_services.keys())
                suffix = nss[0][len("nn-cc-"):] if nss and nss[0].startswith("nn-cc-") else None
                _CATALOG[kind] = (len(ifs), bool(ifs) and all(str(i.type) == "DedicatedPort" for i in ifs), suffix, str(c.type))
                t.graph_model.delete_graph()
                t = ExperimentTopology()
        finally:
            t.graph_model.delete_graph()
    return _CATALOG


def nports(kind):
    return catalog()[kind][0]


def dedicated(kind):
    return catalog()[kind][1]


def own_service(node, comp, kind):
    """Name of the service a component of this kind comes with (None: it has none)."""
    sfx = catalog()[kind][2]
    return None if sfx is None else "%s-%s-%s" % (node, comp, sfx)


def port_kinds():
    return [k for k in NICS if nports(k) > 0]


def draw_kind(rng):
    """Component model for a random recipe: the common ones often, every model of the catalog now and then (the rare
    ones with ports of their own - FPGAs - in particular)."""
    u = rng.random()
    if u < 0.7:
        return rng.choice(["shared", "smart6", "smart6", "smart5", "gpu", "nvme"])
    if u < 0.85:
        rare = [k for k in port_kinds() if k not in ("shared", "smart6", "smart5")]
        return rng.choice(rare or ["smart6"])
    return rng.choice(sorted(NICS))
CLS = {"NetworkNode": 0, "Component": 1, "NetworkService": 2, "ConnectionPoint": 3, "Link": 4}
PRUNE_STATE = "Failed"
# every member of the LinkType enumeration (read from the library: a new member is generated too)
LINK_TYPES = [m.name for m in fu.LinkType]


# every member of the ServiceType enumeration: a service of a topology may be of any of them, single-site or not
SERVICE_TYPES = [m.name for m in fu.ServiceType]


def service_opts(st):
    """Optional 4th element of a "service" step: {"t": ServiceType name, "site": site or absent}; L2Bridge without a site
    when absent (older corpus cases)."""
    return st[3] if len(st) > 3 and st[3] else {}


def draw_service_opts(rng, refs, kinds):
    """Type and site of a generated service.  Every ServiceType (the guard rails refuse only L2PTP on a shared port); half of
    the services carry a site - the one thing validate() would also write into them - so that a removal next to them has a
    property to lose.  kinds: (node, comp) -> component kind."""
    if rng.random() < 0.35:
        return None
    shared = any(x[0] in ("n", "c") and not dedicated(kinds.get((x[1], x[2]), "smart6")) for x in refs) or any(x[0] in ("f", "w", "s") for x in refs)
    t = rng.choice([x for x in SERVICE_TYPES if not (x == "L2PTP" and shared)])
    o = {"t": t}
    if rng.random() < 0.6:
        o["site"] = rng.choice(SITES)
    return o


def link_type(st):
    """Link type of a "link" step: optional 4th element, L2Path when absent (older corpus cases)."""
    return fu.LinkType[st[3]] if len(st) > 3 and st[3] else fu.LinkType.L2Path


# --------------------------------------------------------------------------
# recipes


def gen_recipe(rng, size=None):
    """Random building history: nodes with components (0-2 ports), sub-interfaces, a facility, a switch,
    services with connected interfaces, peerings, explicit links with 1..4 ends, reservation marks."""
    size = size or rng.choice([1, 2, 2, 3, 3, 4])
    # naming style: "plain" = globally distinct names; "short" = names reused wherever the API allows (component names
    # unique per node, sub-interface names per parent port); "prefix" = names that are prefixes of each other
    # (nic1/nic10, n1/n1-nic1, net/net1, v1/v10): elements are looked up by derived names, so equal names and
    # name prefixes are where a removal can hit a sibling
    # "clash" = the same names used across classes (a node, a component, a service and a link all called n1; services net /
    # links net1): lookups filter by class, and the derived port / link names then collide in interesting ways
    style = rng.choice(["plain", "short", "prefix", "prefix", "clash"])
    short = style != "plain"
    NN = ["n1", "n1-nic1", "n10", "n1-nic10"] if style in ("prefix", "clash") else ["n%d" % k for k in range(4)]
    CN = ["nic1", "nic10", "nic100"] if style == "prefix" else ["n1", "n10", "n1-nic1"] if style == "clash" else ["nic0", "nic1", "nic2"]
    VN = ["v1", "v10", "v100"] if style in ("prefix", "clash") else ["v100", "v101", "v102"]
    SN = ["net", "net1", "net10"] if style == "prefix" else ["n1", "n10", "n1-nic1"] if style == "clash" else ["s0", "s1", "s2"]
    LN = ["net", "n1", "n10", "net1", "l4", "l5"] if style == "clash" else ["l%d" % k for k in range(6)]
    r = []
    if rng.random() < 0.3:
        # caller-supplied node ids, prefix-related (a1 / a10 / a1-b / a1:c0 ...)
        r.append(["opts", {"ids": True}])
    ifs = []      # symbolic interface refs: ["n", node, comp, idx] / ["c", node, comp, idx, child] / ["f", fac, idx] / ["w", sw, idx]
    nodes = []
    for k in range(size):
        nn = NN[k]
        r.append(["node", nn, rng.choice(SITES)])
        nodes.append(nn)
        for c in range(rng.choice([0, 1, 1, 2, 2, 3])):
            kind = draw_kind(rng)
            # half of the recipes reuse component / sub-interface names wherever the API allows it (component names are
            # unique per node, sub-interface names per parent port): equal-named ports then meet in one service
            cn = CN[c] if short else "%s-c%d" % (nn, c)
            r.append(["comp", nn, cn, kind])
            for p in range(nports(kind)):
                ifs.append(["n", nn, cn, p])
                if dedicated(kind) and rng.random() < 0.35:
                    for ch in range(rng.choice([1, 1, 2, 3])):
                        chn = VN[ch] if short else "%s-p%d-ch%d" % (cn, p, ch)
                        r.append(["child", nn, cn, p, chn, str(100 + ch)])
                        ifs.append(["c", nn, cn, p, chn])
    if rng.random() < 0.5:
        nfi = rng.choice([1, 1, 2, 3])
        r.append(["facility", "fac0", rng.choice(SITES), nfi])
        for p in range(nfi):
            ifs.append(["f", "fac0", p])
    if rng.random() < 0.35:
        npo = rng.choice([1, 2, 3])
        r.append(["switch", "sw0", rng.choice(SITES), npo])
        for p in range(npo):
            ifs.append(["w", "sw0", p])
    # services a node / a switch owns directly, with ports of their own.  Interface names are unique per SERVICE only: every
    # such service has a p1 (p10, p100), so one node directly holds several interfaces of one name (next to the switch's own
    # p1..pn) - whatever collects "the interfaces of the node" by name sees one of them
    if rng.random() < 0.35:
        hosts = nodes + [st[1] for st in r if st[0] == "switch"]
        for hn in rng.sample(hosts, min(len(hosts), rng.choice([1, 1, 2]))):
            for sn in rng.sample(["nsa", "nsb", hn + "-nsa"], rng.choice([1, 2, 2, 3])):
                k2 = rng.choice([1, 1, 2, 3])
                r.append(["nodesvc", hn, sn, k2])
                ifs.extend(["s", hn, sn, j] for j in range(k2))
    rng.shuffle(ifs)
    free = list(ifs)
    svcs = []
    for s in range(rng.choice([0, 1, 1, 2, 2, 3])):
        sn = SN[s]
        k = rng.choice([0, 1, 2, 2, 3])
        mine, free = free[:k], free[k:]
        so = draw_service_opts(rng, mine, {(x[1], x[2]): x[3] for x in r if x[0] == "comp"})
        r.append(["service", sn, mine] + ([so] if so else []))
        svcs.append(sn)
    # later connect_interface calls
    l2ptp = {st[1] for st in r if st[0] == "service" and service_opts(st).get("t") == "L2PTP"}
    for sn in svcs:
        if free and rng.random() < 0.3 and sn not in l2ptp:
            r.append(["connect", sn, free.pop()])
    # peerings (ASM style)
    for a, b in itertools.combinations(svcs, 2):
        if rng.random() < 0.3:
            r.append(["peer", a, b])
    # explicit links between still-unconnected interfaces (1..4 ends)
    # (a link never has two ends in one interface family = a port and its sub-interfaces: see ASSUMPTIONS)
    ln = 0
    while free and rng.random() < 0.5:
        k = min(len(free), rng.choice([1, 2, 2, 2, 3, 3, 4]))
        ends, rest, fams = [], [], set()
        for x in free:
            fam = tuple(x[1:4]) if x[0] in ("n", "c") else tuple(x)
            if len(ends) < k and fam not in fams:
                ends.append(x)
                fams.add(fam)
            else:
                rest.append(x)
        free = rest
        # every link type: the number of ends of a link is a fact of the graph, not of its Type (LinkConstraints are not enforced)
        r.append(["link", LN[ln % len(LN)] if ln < len(LN) else "l%d" % ln, ends, rng.choice(LINK_TYPES)])
        ln += 1
    # Topology.validate() somewhere before the removals: it writes what it infers (the site of a single-site service) into
    # the model; whether it then accepts the topology or not, the state it leaves is the state the removal starts from
    if rng.random() < 0.3:
        r.append(["validate"])
    # reservation marks for prune
    marks = []
    for nn in nodes:
        if rng.random() < 0.25:
            marks.append(["node", nn])
    for c in [x for x in r if x[0] == "comp"]:
        if rng.random() < 0.15:
            marks.append(["comp", c[1], c[2]])
        if own_service(c[1], c[2], c[3]) and rng.random() < 0.12:
            # the component's own service: nested in its component and node when those are marked too
            marks.append(["service", own_service(c[1], c[2], c[3])])
    for sn in svcs:
        if rng.random() < 0.25:
            marks.append(["service", sn])
    for i in ifs:
        if rng.random() < 0.08 and i[0] == "n":
            marks.append(["iface", i])
    for m in marks:
        r.append(["mark"] + m)
    return r


def gen_substrate_recipe(rng, size=None):
    """Substrate flavour: every element carries a caller-supplied node id (prefix-related), interfaces belong to services of
    nodes / switches / facilities, connections are explicit links (connect_interface / peer need generated ids and are
    refused in a substrate topology), NetworkService.remove_interface is allowed."""
    size = size or rng.choice([1, 2, 2, 3])
    r = [["opts", {"substrate": True, "ids": True}]]
    NN = ["n1", "n10", "n1-nic1", "n100"]
    CN = ["nic1", "nic10", "nic100"]
    free = []
    for k in range(size):
        nn = NN[k]
        r.append(["node", nn, rng.choice(SITES)])
        for c in range(rng.choice([0, 1, 1, 2])):
            kind = rng.choice(["shared", "smart6", "smart5", "gpu"])
            r.append(["comp", nn, CN[c], kind])
            for p in range(nports(kind)):
                free.append(["n", nn, CN[c], p])
                if dedicated(kind) and rng.random() < 0.35:
                    for ch in range(rng.choice([1, 2])):
                        r.append(["child", nn, CN[c], p, ["v1", "v10"][ch], str(100 + ch)])
                        free.append(["c", nn, CN[c], p, ["v1", "v10"][ch]])
        if rng.random() < 0.7:
            sn = rng.choice(["ns", nn, nn + "-ns"])         # a service named like its node: lookups go by class
            k2 = rng.choice([1, 2, 3])
            r.append(["nodesvc", nn, sn, k2])
            free.extend(["s", nn, sn, j] for j in range(k2))
    if rng.random() < 0.5:
        npo = rng.choice([1, 2, 3])
        r.append(["switch", "sw1", rng.choice(SITES), npo])
        free.extend(["w", "sw1", p] for p in range(npo))
    if rng.random() < 0.4:
        nfi = rng.choice([1, 2, 3])
        r.append(["facility", "fac1", rng.choice(SITES), nfi])
        free.extend(["f", "fac1", p] for p in range(nfi))
    rng.shuffle(free)
    ln = 0
    LN = ["l1", "l10", "n1", "l1-x", "l100"]
    while free and rng.random() < 0.75 and ln < len(LN):
        k = min(len(free), rng.choice([1, 2, 2, 2, 3, 3, 4]))
        ends, rest, fams = [], [], set()
        for x in free:
            fam = tuple(x[1:4]) if x[0] in ("n", "c") else tuple(x)
            if len(ends) < k and fam not in fams:
                ends.append(x)
                fams.add(fam)
            else:
                rest.append(x)
        free = rest
        r.append(["link", LN[ln], ends, rng.choice(LINK_TYPES)])
        ln += 1
    return r


def corner_recipes():
    """Deterministic corner cases, smallest first."""
    A = ["n", "n0", "n0-c0", 0]
    B = ["n", "n1", "n1-c0", 0]
    B2 = ["n", "n1", "n1-c0", 1]
    base = [["node", "n0", "RENC"], ["comp", "n0", "n0-c0", "smart6"], ["node", "n1", "RENC"], ["comp", "n1", "n1-c0", "smart6"]]
    out = []
    out.append([["node", "n0", "RENC"]])
    out.append([["node", "n0", "RENC"], ["comp", "n0", "n0-c0", "gpu"]])
    out.append(base + [["service", "s0", [A, B]]])
    # two services that do not peer but meet in node n1
    out.append(base + [["node", "n2", "UKY"], ["comp", "n2", "n2-c0", "shared"],
                       ["service", "s0", [A, B]], ["service", "s1", [B2, ["n", "n2", "n2-c0", 0]]]])
    # peered services
    out.append(base + [["service", "s0", [A]], ["service", "s1", [B]], ["peer", "s0", "s1"]])
    # sub-interfaces, one connected
    out.append(base + [["child", "n0", "n0-c0", 0, "ch0", "100"], ["child", "n0", "n0-c0", 0, "ch1", "101"],
                       ["service", "s0", [["c", "n0", "n0-c0", 0, "ch0"], B]]])
    # only child, unconnected and connected
    out.append(base + [["child", "n0", "n0-c0", 0, "ch0", "100"]])
    out.append(base + [["child", "n0", "n0-c0", 0, "ch0", "100"], ["service", "s0", [["c", "n0", "n0-c0", 0, "ch0"]]]])
    # explicit links with 1, 2, 3 ends
    out.append(base + [["link", "l0", [A]]])
    out.append(base + [["link", "l0", [A, B]]])
    out.append(base + [["link", "l0", [A, B, B2]]])
    out.append(base + [["node", "n2", "UKY"], ["comp", "n2", "n2-c0", "shared"], ["link", "l0", [A, B, ["n", "n2", "n2-c0", 0]]]])
    # explicit links of every LinkType with 2, 3 and 4 ends (removing the owner of one end must leave a link with >= 2
    # remaining ends alone whatever its Type says), next to a shared L2Path on the second ports and a connected service
    C2, D = ["n", "n2", "n2-c0", 0], ["n", "n3", "n3-c0", 0]
    four = base + [["node", "n2", "UKY"], ["comp", "n2", "n2-c0", "smart5"], ["node", "n3", "UKY"], ["comp", "n3", "n3-c0", "smart6"]]
    for lt in LINK_TYPES:
        out.append(four + [["link", "l0", [A, B], lt], ["link", "l1", [["n", "n0", "n0-c0", 1], B2, ["n", "n2", "n2-c0", 1]], "L2Path"]])
        out.append(four + [["link", "l0", [A, B, C2], lt], ["service", "s0", [["n", "n0", "n0-c0", 1], B2]]])
        out.append(four + [["link", "l0", [A, B, C2, D], lt], ["link", "l1", [["n", "n0", "n0-c0", 1], B2, ["n", "n3", "n3-c0", 1]], lt]])
        # a sub-interface on a multi-ended link
        out.append(four + [["child", "n0", "n0-c0", 0, "ch0", "100"], ["link", "l0", [["c", "n0", "n0-c0", 0, "ch0"], B, C2], lt]])
    # facility and switch, connected
    out.append([["node", "n0", "RENC"], ["comp", "n0", "n0-c0", "shared"], ["facility", "fac0", "RENC", 1], ["switch", "sw0", "RENC", 2],
                ["service", "s0", [["n", "n0", "n0-c0", 0], ["f", "fac0", 0], ["w", "sw0", 0]]]])
    # prune: nested marks
    out.append(base + [["service", "s0", [A, B]], ["mark", "node", "n0"], ["mark", "service", "s0"]])
    out.append(base + [["service", "s0", [A, B]], ["mark", "node", "n0"], ["mark", "comp", "n0", "n0-c0"]])
    out.append(base + [["service", "s0", [A, B]], ["mark", "comp", "n1", "n1-c0"], ["mark", "iface", B]])
    # prune: a marked component service inside a marked component inside a marked node, and one of its ports
    out.append(base + [["service", "s0", [A, B]], ["mark", "node", "n0"], ["mark", "comp", "n0", "n0-c0"],
                       ["mark", "service", "n0-n0-c0-l2ovs"], ["mark", "iface", A], ["mark", "service", "n1-n1-c0-l2ovs"]])
    # a service next to an explicit link (disconnect must leave the far interface alone)
    out.append(base + [["service", "s0", [["n", "n0", "n0-c0", 1]]], ["link", "l0", [A, B]]])
    # equal-named sub-interfaces on two ports of one node (service ports n0-v100 twice) and on another node, in one service
    V = [["node", "n0", "RENC"], ["comp", "n0", "nic1", "smart6"], ["child", "n0", "nic1", 0, "v100", "100"],
         ["child", "n0", "nic1", 1, "v100", "100"], ["node", "n1", "RENC"], ["comp", "n1", "nic1", "smart6"],
         ["child", "n1", "nic1", 0, "v100", "100"]]
    c1, c2, c3 = ["c", "n0", "nic1", 0, "v100"], ["c", "n0", "nic1", 1, "v100"], ["c", "n1", "nic1", 0, "v100"]
    out.append(V + [["service", "s0", [c1, c2, ["n", "n1", "nic1", 1]]]])
    out.append(V + [["service", "s0", [c1, c2, c3]], ["service", "s1", [["n", "n1", "nic1", 1]]], ["peer", "s0", "s1"]])
    out.append(V + [["service", "s0", [c1]], ["service", "s1", [c2, c3]], ["peer", "s0", "s1"], ["mark", "node", "n0"]])
    # names that are prefixes of each other: sibling components nic1 / nic10, nodes n1 / n1-nic1, services net / net1
    PX = [["node", "n1", "RENC"], ["comp", "n1", "nic1", "smart6"], ["comp", "n1", "nic10", "shared"],
          ["node", "n1-nic1", "RENC"], ["comp", "n1-nic1", "nic1", "smart6"], ["child", "n1", "nic1", 0, "v1", "100"],
          ["child", "n1", "nic1", 0, "v10", "101"]]
    out.append(PX + [["service", "net", [["n", "n1", "nic10", 0], ["n", "n1-nic1", "nic1", 0]]],
                     ["service", "net1", [["n", "n1", "nic1", 1], ["c", "n1", "nic1", 0, "v10"]]]])
    out.append(PX + [["service", "net1", [["n", "n1", "nic10", 0], ["c", "n1", "nic1", 0, "v1"], ["n", "n1-nic1", "nic1", 1]]],
                     ["service", "net", [["c", "n1", "nic1", 0, "v10"]]], ["peer", "net", "net1"], ["mark", "comp", "n1", "nic1"]])
    # prune of a node whose sub-interface is connected
    out.append(base + [["child", "n0", "n0-c0", 0, "ch0", "100"], ["service", "s0", [["c", "n0", "n0-c0", 0, "ch0"], B]], ["mark", "node", "n0"]])
    # every model of the catalog that brings ports of its own (the NICs and the rare one: FPGAs), next to a port-less
    # component: a port connected to a service, a sub-interface of the other port connected, and the pair on an explicit link
    for kind in port_kinds():
        if kind in ("smart6", "smart5", "shared"):
            continue            # (in the cases above)
        X = [["node", "n0", "RENC"], ["comp", "n0", "x1", kind], ["comp", "n0", "g1", "gpu"], ["node", "n1", "RENC"], ["comp", "n1", "n1-c0", "smart6"]]
        P0, P1 = ["n", "n0", "x1", 0], ["n", "n0", "x1", nports(kind) - 1]
        out.append(X + [["service", "s0", [P0, B]], ["mark", "comp", "n0", "x1"]])
        if dedicated(kind):
            out.append(X + [["child", "n0", "x1", 0, "ch0", "100"], ["service", "s0", [["c", "n0", "x1", 0, "ch0"], B]],
                            ["service", "s1", [P1] if P1 != P0 else []]])
            out.append(X + [["link", "l0", [P0, B], "L2Path"], ["service", "s1", [P1, B2] if P1 != P0 else [B2]]])
    # services a node / a switch owns directly, each with a port p1 (names are unique per service only): both p1 connected to
    # services of the topology, one connected and one on an explicit link, and next to the switch's own ports p1, p2
    for host in (["node", "n0", "RENC"], ["switch", "n0", "RENC", 2]):
        NS = [host, ["nodesvc", "n0", "nsa", 2], ["nodesvc", "n0", "nsb", 1], ["node", "n1", "RENC"], ["comp", "n1", "n1-c0", "smart6"]]
        Pa, Pa2, Pb = ["s", "n0", "nsa", 0], ["s", "n0", "nsa", 1], ["s", "n0", "nsb", 0]
        out.append(NS + [["service", "s0", [Pa, B]], ["service", "s1", [Pb, B2]]])
        out.append(NS + [["service", "s0", [Pb, Pa]], ["link", "l0", [Pa2, B]]])
        out.append(NS + [["service", "s0", [Pa]], ["service", "s1", [Pb]], ["peer", "s0", "s1"], ["mark", "node", "n0"]])
        if host[0] == "switch":
            out.append(NS + [["service", "s0", [Pa, ["w", "n0", 0]]], ["service", "s1", [Pb, ["w", "n0", 1], B2]]])
    # services of every type, with a site of their own (given at creation) or one written by validate(), holding one or two
    # interfaces: whatever is removed next to them, they keep their properties
    for i, stype in enumerate(SERVICE_TYPES):
        one = [A] if stype == "L2PTP" or i % 2 else [["n", "n2", "n2-c0", 0]]
        S3 = base + ([["node", "n2", "UKY"], ["comp", "n2", "n2-c0", "shared"]] if one != [A] else [])
        # s0: site given at creation; s1: site written by validate() (where validate gets that far); one interface each, so
        # that every removal next to them takes the last one away
        out.append(S3 + [["service", "s0", one, {"t": stype, "site": SITES[i % 3]}], ["service", "s1", [B], {"t": stype}], ["validate"]])
    return out


class Built:
    def __init__(self, substrate=False):
        self.t = SubstrateTopology() if substrate else ExperimentTopology()
        self.svc = {}      # name -> handle returned by the constructor (kept across operations)
        self.children = {}  # (node, comp, port) -> parent Interface handle
        self.nodeh = {}     # name -> Node handle returned by add_node (kept: lookups of a history go through it as well)
        self.nsids = set()  # node ids of the services added to nodes / switches by "nodesvc" steps
        self.lookups = []   # outcome of every lookup step of the history (what it resolved to, or the error kind)


def resolve_if(b, ref):
    t = b.t
    if ref[0] == "n":
        return t.nodes[ref[1]].components[ref[2]].interface_list[ref[3]]
    if ref[0] == "c":
        p = t.nodes[ref[1]].components[ref[2]].interface_list[ref[3]]
        return p.interfaces[ref[4]]
    if ref[0] == "f":
        return t.facilities[ref[1]].interface_list[ref[2]]
    if ref[0] == "w":
        if not b.nsids:
            return t.nodes[ref[1]].interface_list[ref[2]]
        # a switch that was given further services: its own ports are those of the service it came with
        return [i for ns in t.nodes[ref[1]].network_services.values() if ns.node_id not in b.nsids for i in ns.interface_list][ref[2]]
    if ref[0] == "s":
        return t.nodes[ref[1]].network_services[ref[2]].interface_list[ref[3]]
    raise ValueError(ref)


NODE_IDS = ["a1", "a10", "a1-b", "a1-b1", "a100"]


def build(recipe):
    sub = any(st[0] == "opts" and st[1].get("substrate") for st in recipe)
    b = Built(substrate=sub)
    t = b.t
    ids = False
    nidx = b.nidx = {}

    used_ids = set()
    nseq = [0]

    def nid(kind, *parts):
        """caller-supplied node id (prefix-related across elements) or None; a name used a second time (after the first
        holder was renamed) gets the id of the first with a suffix"""
        if not ids:
            return None
        x = nid0(kind, *parts)
        while x in used_ids:
            x += "'"
        used_ids.add(x)
        return x

    def nid0(kind, *parts):
        if kind == "node":
            # (a node name met again names a new node: the first holder was renamed)
            nidx[parts[0]] = NODE_IDS[nseq[0] % len(NODE_IDS)] + ("x" * (nseq[0] // len(NODE_IDS)))
            nseq[0] += 1
            return nidx[parts[0]]
        if kind == "comp":
            return "%s:c%s" % (nidx[parts[0]], parts[1])
        return "%s:%s" % (kind, ":".join(str(p) for p in parts))
    for st in recipe:
        k = st[0]
        if k == "opts":
            ids = bool(st[1].get("ids"))
        elif k == "node":
            if sub:
                b.nodeh[st[1]] = t.add_node(name=st[1], site=st[2], node_id=nid("node", st[1]), ntype=fu.NodeType.Server)
            else:
                b.nodeh[st[1]] = t.add_node(name=st[1], site=st[2], node_id=nid("node", st[1]))
        elif k == "nodesvc":
            ns = t.nodes[st[1]].add_network_service(name=st[2], node_id=nid("ns", nidx.get(st[1]), st[2]), nstype=fu.ServiceType.MPLS)
            b.nsids.add(ns.node_id)
            for j in range(st[3]):
                # port names p1, p10, p100: prefixes of each other
                ns.add_interface(name="p1" + "0" * j, node_id=nid("p", nidx.get(st[1]), st[2], j), itype=fu.InterfaceType.TrunkPort)
        elif k == "comp":
            t.nodes[st[1]].add_component(name=st[2], model_type=NICS[st[3]], node_id=nid("comp", st[1], st[2]))
        elif k == "child":
            p = t.nodes[st[1]].components[st[2]].interface_list[st[3]]
            p.add_child_interface(name=st[4], labels=Labels(vlan=st[5]), node_id=nid("v", nidx.get(st[1]), st[2], st[3], st[4]))
        elif k == "facility":
            if st[3] == 1:
                t.add_facility(name=st[1], site=st[2], labels=Labels(vlan="200"), node_id=nid("f", st[1]))
            else:
                t.add_facility(name=st[1], site=st[2], node_id=nid("f", st[1]),
                               interfaces=[("%s-i%d" % (st[1], j), Labels(vlan=str(200 + j)), None) for j in range(st[3])])
        elif k == "switch":
            t.add_switch(name=st[1], site=st[2], nports=st[3], node_id=nid("w", st[1]))
        elif k == "service":
            so = service_opts(st)
            kw = {"site": so["site"]} if so.get("site") else {}
            b.svc[st[1]] = t.add_network_service(name=st[1], nstype=fu.ServiceType[so.get("t", "L2Bridge")], node_id=nid("s", st[1]),
                                                 interfaces=[resolve_if(b, x) for x in st[2]], **kw)
        elif k == "validate":
            try:
                t.validate()
            except Exception:
                pass
        elif k == "connect":
            b.svc[st[1]].connect_interface(resolve_if(b, st[2]))
        elif k == "peer":
            b.svc[st[1]].peer(b.svc[st[2]])
        elif k == "link":
            t.add_link(name=st[1], ltype=link_type(st), interfaces=[resolve_if(b, x) for x in st[2]], node_id=nid("l", st[1]))
        elif k == "mark":
            ri = ReservationInfo(reservation_state=PRUNE_STATE)
            if st[1] == "node":
                t.nodes[st[2]].reservation_info = ri
            elif st[1] == "comp":
                t.nodes[st[2]].components[st[3]].reservation_info = ri
            elif st[1] == "service":
                t.network_services[st[2]].reservation_info = ri
            elif st[1] == "iface":
                resolve_if(b, st[2]).reservation_info = ri
        elif k == "lookup":
            b.lookups.append(do_lookup(b, st))
        elif k == "rename":
            do_rename(b, st)
        else:
            raise ValueError(st)
    return b


# --------------------------------------------------------------------------
# histories: by-name lookups, renames and re-use of freed names in the building history.  What a name denotes is a fact
# of the model as it is NOW; whatever an earlier lookup saw (and any index a lookup may have filled) must not matter.


def has_history(recipe):
    return any(st[0] in ("lookup", "rename") for st in recipe)


def do_lookup(b, st):
    """One by-name lookup through the public API.  Returns the node id it resolved to or the error kind; never raises."""
    from core import err_kind
    t = b.t
    how = st[1]
    try:
        if how == "get_component":
            e = t.nodes[st[2]].get_component(st[3])
        elif how == "get_component_kept":
            e = b.nodeh[st[2]].get_component(st[3])
        elif how == "t.nodes":
            e = t.nodes[st[2]]
        elif how == "t.facilities":
            e = t.facilities[st[2]]
        elif how == "t.network_services":
            e = t.network_services[st[2]]
        elif how == "t.links":
            e = t.links[st[2]]
        elif how == "t.interfaces":
            e = t.interfaces[st[2]]
        elif how == "node.components":
            e = t.nodes[st[2]].components[st[3]]
        elif how == "kept.components":
            e = b.nodeh[st[2]].components[st[3]]
        elif how == "node.network_services":
            e = t.nodes[st[2]].network_services[st[3]]
        elif how == "node.interfaces":
            e = t.nodes[st[2]].interfaces[st[3]]
        elif how == "comp.interfaces":
            e = t.nodes[st[2]].components[st[3]].interfaces[st[4]]
        elif how == "svc.interfaces":
            e = t.network_services[st[2]].interfaces[st[3]]
        elif how == "kept.svc.interfaces":
            e = b.svc[st[2]].interfaces[st[3]]
        elif how == "iface.interfaces":
            e = resolve_if(b, st[2]).interfaces[st[3]]
        elif how == "dup_add_node":
            # a refused second add of a taken name looks the name up (and must change nothing)
            e = t.add_node(name=st[2], site="RENC")
        elif how == "dup_add_comp":
            e = t.nodes[st[2]].add_component(name=st[3], model_type=NICS["gpu"])
        elif how == "dup_add_service":
            e = t.add_network_service(name=st[2], nstype=fu.ServiceType.L2Bridge, interfaces=[])
        elif how == "dup_add_link":
            e = t.add_link(name=st[2], ltype=fu.LinkType.L2Path, interfaces=[resolve_if(b, x) for x in st[3]])
        else:
            raise ValueError(st)
        return e.node_id
    except Exception as ex:
        return "error:" + err_kind(ex)


def do_rename(b, st):
    """["rename", how, kind, *path, new]; how = "rename" (ModelElement.rename) or "setter" (element.name = new)."""
    t = b.t
    how, kind, new = st[1], st[2], st[-1]
    p = st[3:-1]
    if kind == "node":
        e = b.nodeh[p[0]] if how == "kept" and p[0] in b.nodeh else t.nodes[p[0]]
        if p[0] in b.nodeh:
            b.nodeh[new] = b.nodeh.pop(p[0])
        if p[0] in b.nidx:
            b.nidx[new] = b.nidx.pop(p[0])
    elif kind == "switch":
        e = t.nodes[p[0]]
    elif kind == "facility":
        e = t.facilities[p[0]]
    elif kind == "comp":
        e = t.nodes[p[0]].get_component(p[1]) if how == "kept" else t.nodes[p[0]].components[p[1]]
    elif kind == "child":
        e = t.nodes[p[0]].components[p[1]].interface_list[p[2]].interfaces[p[3]]
    elif kind == "service":
        e = b.svc[p[0]] if how == "kept" else t.network_services[p[0]]
        b.svc[new] = b.svc.pop(p[0])
    elif kind == "nodesvc":
        e = t.nodes[p[0]].network_services[p[1]]
    elif kind == "link":
        e = t.links[p[0]]
    elif kind == "port":
        e = resolve_if(b, p[0])
    else:
        raise ValueError(st)
    if how == "setter":
        e.name = new
    else:
        e.rename(new)


def _map_ref(ref, kind, p, new):
    ref = list(ref)
    if kind == "node" and ref[0] in ("n", "c", "s") and ref[1] == p[0]:
        ref[1] = new
    elif kind == "switch" and ref[0] in ("w", "s") and ref[1] == p[0]:
        ref[1] = new
    elif kind == "facility" and ref[0] == "f" and ref[1] == p[0]:
        ref[1] = new
    elif kind == "comp" and ref[0] in ("n", "c") and ref[1] == p[0] and ref[2] == p[1]:
        ref[2] = new
    elif kind == "child" and ref[0] == "c" and ref[1:5] == list(p[0:4]):
        ref[4] = new
    elif kind == "nodesvc" and ref[0] == "s" and ref[1] == p[0] and ref[2] == p[1]:
        ref[2] = new
    return ref


def _renamed(st, rn):
    """The building step st with the names the renaming rn leaves behind."""
    kind, new = rn[2], rn[-1]
    p = rn[3:-1]
    st = list(st)
    k = st[0]
    if k in ("service", "link"):
        st[2] = [_map_ref(x, kind, p, new) for x in st[2]]
    elif k == "connect" or (k == "mark" and st[1] == "iface"):
        st[2] = _map_ref(st[2], kind, p, new)
    if kind == "node":
        if k in ("node", "comp", "child", "nodesvc") and st[1] == p[0]:
            st[1] = new
        elif k == "mark" and st[1] in ("node", "comp") and st[2] == p[0]:
            st[2] = new
    elif kind in ("switch", "facility"):
        if (k == kind or (k == "nodesvc" and kind == "switch")) and st[1] == p[0]:
            st[1] = new
    elif kind == "comp":
        if k in ("comp", "child") and st[1] == p[0] and st[2] == p[1]:
            st[2] = new
        elif k == "mark" and st[1] == "comp" and st[2] == p[0] and st[3] == p[1]:
            st[3] = new
    elif kind == "child":
        if k == "child" and st[1:5] == list(p[0:4]):
            st[4] = new
    elif kind == "service":
        if k in ("service", "connect") and st[1] == p[0]:
            st[1] = new
        elif k == "peer":
            st[1:3] = [new if x == p[0] else x for x in st[1:3]]
        elif k == "mark" and st[1] == "service" and st[2] == p[0]:
            st[2] = new
    elif kind == "nodesvc":
        if k == "nodesvc" and st[1] == p[0] and st[2] == p[1]:
            st[2] = new
    elif kind == "link":
        if k == "link" and st[1] == p[0]:
            st[1] = new
    return st


def effective(recipe):
    """The rename-free building history with the names every element carries NOW (lookups dropped): what the enumeration of
    operations and the ownership oracle read.  Names derived at creation time (ports, implicit links, the service of a
    component) keep their old spelling in the model; an operation addressed by a re-derived name that no longer exists
    must fail and change nothing."""
    if not has_history(recipe):
        return recipe
    out = []
    for st in recipe:
        if st[0] == "lookup":
            continue
        if st[0] == "rename":
            out = [_renamed(x, st) for x in out]
            continue
        out.append(list(st))
    return out


def add_history(rng, r, free=()):
    """Append a tail of lookups / renames / re-use of the freed names to the (rename-free) recipe r.
    Every kind of element is renamed; the freed name is taken by a new sibling or by renaming a sibling into it."""
    r = [list(x) for x in r]
    free = [list(x) for x in free]
    sub = any(st[0] == "opts" and st[1].get("substrate") for st in r)
    fresh = iter("r%d" % i for i in range(100))
    vl = iter(str(150 + i) for i in range(100))
    for _ in range(rng.choice([1, 1, 2, 3])):
        eff = effective(r)
        cands = []
        for st in eff:
            if st[0] == "node":
                cands.append(("node", [st[1]]))
            elif st[0] == "comp":
                cands.extend([("comp", [st[1], st[2]])] * 3)
                for pi in range(nports(st[3])):
                    cands.append(("port", [["n", st[1], st[2], pi]]))
            elif st[0] == "child":
                cands.extend([("child", [st[1], st[2], st[3], st[4]])] * 2)
            elif st[0] == "service":
                cands.extend([("service", [st[1]])] * 2)
            elif st[0] == "link":
                cands.append(("link", [st[1]]))
            elif st[0] == "nodesvc":
                cands.extend([("nodesvc", [st[1], st[2]])] * 2)
                if st[3]:
                    cands.append(("port", [["s", st[1], st[2], rng.randrange(st[3])]]))
            elif st[0] in ("switch", "facility"):
                cands.append((st[0], [st[1]]))
        if not cands:
            break
        kind, p = rng.choice(cands)
        old = None if kind == "port" else p[-1]
        sib = siblings(eff, kind, p)

        def lookups(names):
            out = []
            for nm in names:
                if kind == "node":
                    out += [["lookup", "t.nodes", nm], ["lookup", "dup_add_node", nm]]
                elif kind == "switch":
                    out += [["lookup", "t.nodes", nm]]
                elif kind == "facility":
                    out += [["lookup", "t.facilities", nm]]
                elif kind == "comp":
                    out += [["lookup", h, p[0], nm] for h in ("get_component", "get_component_kept", "node.components", "kept.components", "dup_add_comp")]
                elif kind == "child":
                    out += [["lookup", "iface.interfaces", ["n", p[0], p[1], p[2]], nm], ["lookup", "t.interfaces", nm],
                            ["lookup", "comp.interfaces", p[0], p[1], nm], ["lookup", "node.interfaces", p[0], nm]]
                elif kind == "service":
                    out += [["lookup", "t.network_services", nm], ["lookup", "dup_add_service", nm]]
                elif kind == "nodesvc":
                    out += [["lookup", "node.network_services", p[0], nm], ["lookup", "t.network_services", nm]]
                elif kind == "link":
                    out += [["lookup", "t.links", nm], ["lookup", "dup_add_link", nm, free[:2]]]
            if kind == "port":
                ref = p[0]
                out += [["lookup", "node.interfaces", ref[1], pn] for pn in ("%s-p%d" % (ref[2], ref[3] + 1), "p1" + "0" * ref[3])]
            # interfaces of services are looked up by name as well
            for st in eff:
                if st[0] == "service" and st[2] and rng.random() < 0.5:
                    out.append(["lookup", rng.choice(["svc.interfaces", "kept.svc.interfaces"]), st[1], "%s-%s-p%d" % (st[2][0][1], st[2][0][2], 1)])
            rng.shuffle(out)
            return out[:rng.choice([1, 2, 3, 4])]
        r += lookups([old] + sib[:1] if old is not None else [])
        how = rng.choice(["rename", "rename", "setter", "kept"])
        style = rng.choice(["fresh", "prefix", "swap"]) if (sib and kind != "port") else rng.choice(["fresh", "prefix"])
        if kind == "port":
            r.append(["rename", how, kind] + p + [next(fresh)])
            r += lookups([])
            continue
        new = next(fresh) if style == "fresh" else old + "0"
        if any(x == new for x in sib):
            new = next(fresh)
        r.append(["rename", how, kind] + p + [new])
        # the freed name is taken again: by a new element of the same kind under the same parent, or by a sibling renamed into it
        u = rng.random()
        if style == "swap":
            r.append(["rename", rng.choice(["rename", "setter"]), kind] + p[:-1] + [sib[0], old])
        elif u < 0.8:
            if kind == "node":
                r.append(["node", old, "RENC"])
                if rng.random() < 0.5 and not sub:
                    r.append(["comp", old, "nic1", rng.choice(["shared", "gpu"])])
            elif kind == "comp":
                r.append(["comp", p[0], old, rng.choice(["gpu", "shared", "smart6", "nvme"])])
            elif kind == "child":
                r.append(["child", p[0], p[1], p[2], old, next(vl)])
            elif kind == "service" and not sub:
                k2 = rng.choice([0, 0, 1, 2])
                mine, free = free[:k2], free[k2:]
                r.append(["service", old, mine])
            elif kind == "link" and free:
                k2 = rng.choice([1, 2, 3])
                ends, free = free[:k2], free[k2:]
                r.append(["link", old, ends, rng.choice(LINK_TYPES)])
            elif kind == "nodesvc":
                r.append(["nodesvc", p[0], old, rng.choice([0, 1, 2])])
        r += lookups([old, new])
    return r


def free_ifrefs(recipe):
    """Interfaces no service / link step of the (effective) recipe uses, one per interface family."""
    eff = effective(recipe)
    used = []
    for st in eff:
        if st[0] in ("service", "link"):
            used += [list(x) for x in st[2]]
        elif st[0] == "connect":
            used.append(list(st[2]))
    fams = {tuple(x[1:4]) if x[0] in ("n", "c") else tuple(x) for x in used}
    out = []
    for x in all_ifrefs(eff):
        fam = tuple(x[1:4]) if x[0] in ("n", "c") else tuple(x)
        if fam not in fams:
            fams.add(fam)
            out.append(x)
    return out


def gen_history_recipe(rng):
    r = gen_substrate_recipe(rng) if rng.random() < 0.25 else gen_recipe(rng)
    free = free_ifrefs(r)
    rng.shuffle(free)
    return add_history(rng, r, free)


def history_corner_recipes():
    """Deterministic: for every kind of element - looked up by name, renamed, the freed name taken by a new sibling (or by a
    sibling renamed into it), further lookups; the by-name removals of run_recipe follow."""
    A, A2 = ["n", "n0", "c1", 0], ["n", "n0", "c1", 1]
    B, B2 = ["n", "n1", "nic2", 0], ["n", "n1", "nic2", 1]
    base = [["node", "n0", "RENC"], ["comp", "n0", "c1", "smart6"], ["node", "n1", "RENC"], ["comp", "n1", "nic2", "smart6"]]
    out = []
    for how in ("rename", "setter"):
        # a component: looked up, renamed, its slot name reused; the renamed NIC is in use
        out.append(base + [["lookup", "get_component", "n0", "c1"], ["rename", how, "comp", "n0", "c1", "nic1"],
                           ["comp", "n0", "c1", "gpu"], ["service", "net", [["n", "n0", "nic1", 0], ["n", "n0", "nic1", 1], B]]])
        out.append(base + [["service", "net", [A, B]], ["lookup", "get_component_kept", "n0", "c1"], ["lookup", "node.components", "n0", "c1"],
                           ["rename", how, "comp", "n0", "c1", "c10"], ["comp", "n0", "c1", "shared"], ["lookup", "get_component", "n0", "c10"],
                           ["lookup", "get_component", "n0", "c1"]])
        # two components swap names
        out.append(base + [["comp", "n0", "c2", "smart5"], ["service", "net", [A, ["n", "n0", "c2", 0], B]], ["lookup", "get_component", "n0", "c1"],
                           ["lookup", "get_component", "n0", "c2"], ["rename", how, "comp", "n0", "c1", "tmp"], ["rename", how, "comp", "n0", "c2", "c1"],
                           ["rename", how, "comp", "n0", "tmp", "c2"]])
        # a sub-interface
        out.append(base + [["child", "n0", "c1", 0, "v1", "100"], ["child", "n0", "c1", 0, "v2", "101"], ["service", "net", [["c", "n0", "c1", 0, "v1"], B]],
                           ["lookup", "iface.interfaces", A, "v1"], ["lookup", "t.interfaces", "v1"], ["rename", how, "child", "n0", "c1", 0, "v1", "v10"],
                           ["child", "n0", "c1", 0, "v1", "102"], ["lookup", "iface.interfaces", A, "v1"]])
        # a node
        out.append(base + [["service", "net", [A, B]], ["lookup", "t.nodes", "n0"], ["lookup", "dup_add_node", "n0"], ["rename", how, "node", "n0", "m0"],
                           ["node", "n0", "UKY"], ["comp", "n0", "c1", "shared"], ["lookup", "t.nodes", "n0"]])
        # a service (through the kept handle and through a fresh one), and services swapping names
        out.append(base + [["service", "net", [A, B]], ["lookup", "t.network_services", "net"], ["lookup", "dup_add_service", "net"],
                           ["rename", how, "service", "net", "net0"], ["service", "net", [A2, B2]], ["lookup", "svc.interfaces", "net", "n0-c1-p2"]])
        out.append(base + [["service", "net", [A, B]], ["service", "lan", [A2, B2]], ["lookup", "t.network_services", "net"], ["lookup", "t.network_services", "lan"],
                           ["rename", "kept" if how == "rename" else how, "service", "net", "tmp"], ["rename", how, "service", "lan", "net"],
                           ["rename", how, "service", "tmp", "lan"]])
        # a link
        out.append(base + [["link", "l0", [A, B], "L2Path"], ["lookup", "t.links", "l0"], ["lookup", "dup_add_link", "l0", [A2, B2]],
                           ["rename", how, "link", "l0", "l00"], ["link", "l0", [A2, B2], "Patch"], ["lookup", "t.links", "l0"]])
        # a port of a component, a facility, a switch
        out.append([["node", "n0", "RENC"], ["comp", "n0", "c1", "smart6"], ["facility", "fac0", "RENC", 2], ["switch", "sw0", "RENC", 2],
                    ["service", "net", [A, ["f", "fac0", 0], ["w", "sw0", 0]]], ["lookup", "node.interfaces", "n0", "c1-p1"], ["lookup", "t.facilities", "fac0"],
                    ["rename", how, "port", A, "c1-p2x"], ["rename", how, "facility", "fac0", "fac1"], ["rename", how, "switch", "sw0", "sw1"],
                    ["facility", "fac0", "UKY", 1], ["lookup", "t.facilities", "fac0"], ["lookup", "t.nodes", "sw0"]])
    # (both ways of renaming for the components; the other kinds alternate)
    out = out[:3] + out[9:12] + [r for i, r in enumerate(out[3:9])] [0::2] + [r for i, r in enumerate(out[12:18])][1::2]
    # substrate: a service of a node and its ports
    S = [["opts", {"substrate": True, "ids": True}], ["node", "n1", "RENC"], ["comp", "n1", "nic1", "smart6"], ["nodesvc", "n1", "ns", 2],
         ["node", "n10", "RENC"], ["nodesvc", "n10", "ns", 1], ["link", "l1", [["s", "n1", "ns", 0], ["s", "n10", "ns", 0]], "L1Path"]]
    out.append(S + [["lookup", "node.network_services", "n1", "ns"], ["rename", "rename", "nodesvc", "n1", "ns", "ns0"], ["nodesvc", "n1", "ns", 1],
                    ["lookup", "node.network_services", "n1", "ns"], ["rename", "setter", "port", ["s", "n1", "ns0", 1], "p7"]])
    out.append(S + [["lookup", "get_component", "n1", "nic1"], ["rename", "kept", "comp", "n1", "nic1", "nic10"], ["comp", "n1", "nic1", "smart5"]])
    return out


def siblings(eff, kind, p):
    """Names of the other elements of this kind under the same parent."""
    out = []
    for st in eff:
        if kind == "node" and st[0] == "node" and st[1] != p[0]:
            out.append(st[1])
        elif kind == "comp" and st[0] == "comp" and st[1] == p[0] and st[2] != p[1]:
            out.append(st[2])
        elif kind == "child" and st[0] == "child" and st[1:4] == list(p[0:3]) and st[4] != p[3]:
            out.append(st[4])
        elif kind == "service" and st[0] == "service" and st[1] != p[0]:
            out.append(st[1])
        elif kind == "link" and st[0] == "link" and st[1] != p[0]:
            out.append(st[1])
        elif kind == "nodesvc" and st[0] == "nodesvc" and st[1] == p[0] and st[2] != p[1]:
            out.append(st[2])
    return out


# --------------------------------------------------------------------------
# canonical snapshot


class Snap:
    """nodes: cid -> (class, type, name, frozen props); edges: set of (cid_lo, cid_hi, rel, frozen props)."""

    def __init__(self, t, ranks=None):
        g = t.graph_model.storage.extract_graph(t.graph_model.graph_id)
        ints = sorted(g.nodes) if g is not None else []
        if ranks is None:
            ranks = {g.nodes[i]["NodeID"]: r for r, i in enumerate(ints)}
        self.ranks = ranks
        self.nodes = {}
        self.edges = set()
        for i in ints:
            d = dict(g.nodes[i])
            nid = d.pop("NodeID")
            d.pop("GraphID", None)
            self.nodes[ranks[nid]] = (d.get("Class"), d.get("Type"), d.get("Name"), tuple(sorted((k, str(v)) for k, v in d.items())))
        if g is not None:
            for a, z, d in g.edges(data=True):
                ca, cz = ranks[g.nodes[a]["NodeID"]], ranks[g.nodes[z]["NodeID"]]
                self.edges.add((min(ca, cz), max(ca, cz), d.get("Class"), tuple(sorted((k, str(v)) for k, v in d.items()))))

    def wire_nodes(self):
        # [cid, class index, kind] kind: 1 ServicePort, 2 Facility node, 3 Switch node, 4 DedicatedPort, 0 other
        out = []
        for c in sorted(self.nodes):
            cl, ty, _, _ = self.nodes[c]
            kind = {"ServicePort": 1, "Facility": 2, "Switch": 3, "DedicatedPort": 4}.get(ty, 0)
            if cl == "Link":
                # the Type of a link goes on the wire as well (5 + index in LinkType): the model never reads it, and the
                # theorems quantify over it
                kind = 5 + LINK_TYPES.index(ty) if ty in LINK_TYPES else 0
            out.append([c, CLS[cl], kind])
        return out

    def wire_edges(self):
        return [[a, z, 0 if rel == "has" else 1] for a, z, rel, _ in sorted(self.edges)]

    def adj(self):
        m = {c: set() for c in self.nodes}
        for a, z, rel, _ in self.edges:
            m[a].add((z, rel))
            m[z].add((a, rel))
        return m


def cid_of(snap, elem):
    return snap.ranks[elem.node_id]


# --------------------------------------------------------------------------
# the declarative owned set (brute force; shares nothing with the removal code)


def down_closure(snap, x):
    """Reflexive-transitive ownership below x: has edges go Node > Component > NetworkService;
    connects edges go NetworkService > ConnectionPoint and parent ConnectionPoint > sub-interface
    (the parent is the one attached to a NetworkService)."""
    adj = snap.adj()
    cls = {c: snap.nodes[c][0] for c in snap.nodes}
    has_ns = {c: any(cls[y] == "NetworkService" and r == "connects" for y, r in adj[c]) for c in snap.nodes}
    rank = {"NetworkNode": 0, "Component": 1, "NetworkService": 2}
    seen, todo = {x}, [x]
    while todo:
        a = todo.pop()
        for y, r in adj[a]:
            own = False
            if r == "has" and cls[a] in rank and cls[y] in rank and rank[cls[a]] < rank[cls[y]]:
                own = True
            elif r == "connects" and cls[a] == "NetworkService" and cls[y] == "ConnectionPoint":
                own = True
            elif r == "connects" and cls[a] == "ConnectionPoint" and cls[y] == "ConnectionPoint" and has_ns[a] and not has_ns[y]:
                own = True
            if own and y not in seen:
                seen.add(y)
                todo.append(y)
    return seen


def link_ends(snap, l, adj=None):
    adj = adj or snap.adj()
    return {y for y, r in adj[l] if r == "connects" and snap.nodes[y][0] == "ConnectionPoint"}


def owned(snap, roots, with_ports=True):
    """owned = closure(roots) + peering artefacts: for every owned interface joined by a two-ended Link to a
    ServicePort, that port; and every Link that joined >= 2 interfaces and is left with <= 1."""
    adj = snap.adj()
    C = set()
    for x in roots:
        if snap.nodes[x][0] == "Link":
            C.add(x)
        else:
            C |= down_closure(snap, x)
    links = [c for c in snap.nodes if snap.nodes[c][0] == "Link"]
    P = set()
    if with_ports:
        for l in links:
            E = link_ends(snap, l, adj)
            if l in C:
                # a removed Link takes the ServicePorts it peered with it (they exist only to peer over it)
                P |= {sp for sp in E if snap.nodes[sp][1] == "ServicePort"}
            elif len(E) == 2:
                a, z = tuple(E)
                for i, sp in ((a, z), (z, a)):
                    if i in C and sp not in C and snap.nodes[sp][1] == "ServicePort":
                        P.add(sp)
    O = C | P
    L = set()
    for l in links:
        E = link_ends(snap, l, adj)
        if len(E) >= 2 and (E & O) and len(E - O) <= 1:
            L.add(l)
    return O | L


# --------------------------------------------------------------------------
# removal operations through the public API


class Saved:
    pass


def save(b):
    """Copy of the model state (the graph's slice of the shared store) and of the kept handles' caches."""
    gm = b.t.graph_model
    big = gm.storage.get_graph(gm.graph_id)
    sv = Saved()
    ids = [n for n, d in big.nodes(data=True) if d.get("GraphID") == gm.graph_id]
    sv.nodes = [(n, dict(big.nodes[n])) for n in ids]
    sv.edges = [(a, z, dict(d)) for a, z, d in big.edges(ids, data=True)]
    sv.handles = {k: list(h._interfaces) for k, h in b.svc.items()}
    return sv


def restore(b, sv):
    gm = b.t.graph_model
    big = gm.storage.get_graph(gm.graph_id)
    big.remove_nodes_from([n for n, d in big.nodes(data=True) if d.get("GraphID") == gm.graph_id])
    big.add_nodes_from((n, dict(d)) for n, d in sv.nodes)
    big.add_edges_from((a, z, dict(d)) for a, z, d in sv.edges)
    for k, l in sv.handles.items():
        b.svc[k]._interfaces = list(l)


def dispose(b):
    b.t.graph_model.delete_graph()


def all_ifrefs(recipe):
    out = []
    for st in recipe:
        if st[0] == "comp":
            for p in range(nports(st[3])):
                out.append(["n", st[1], st[2], p])
        elif st[0] == "child":
            out.append(["c", st[1], st[2], st[3], st[4]])
        elif st[0] == "facility":
            out.extend(["f", st[1], p] for p in range(st[3]))
        elif st[0] == "switch":
            out.extend(["w", st[1], p] for p in range(st[3]))
        elif st[0] == "nodesvc":
            out.extend(["s", st[1], st[2], p] for p in range(st[3]))
    return out


def enumerate_ops(recipe):
    """Every applicable removal / disconnect / un-peer on the topology of this recipe (JSON-able)."""
    ops = []
    svcs = [st[1] for st in recipe if st[0] == "service"]
    for st in recipe:
        if st[0] == "node":
            ops.append(["remove_node", st[1]])
        elif st[0] == "comp":
            ops.append(["remove_component", st[1], st[2]])
            if st[3] == "nvme" or catalog()[st[3]][3] in ("Storage", "FPGA"):
                # (remove_storage is remove_component under another name: it is offered whatever the component is)
                ops.append(["remove_storage", st[1], st[2]])
            if own_service(st[1], st[2], st[3]):
                ops.append(["remove_network_service", own_service(st[1], st[2], st[3])])
        elif st[0] == "child":
            ops.append(["remove_child", ["n", st[1], st[2], st[3]], st[4]])
        elif st[0] == "facility":
            ops.append(["remove_facility", st[1]])
            ops.append(["remove_node", st[1]])          # facilities are not in topology.nodes: must raise
            ops.append(["node_remove_ns", ["fac", st[1]], st[1] + "-ns"])
        elif st[0] == "switch":
            ops.append(["remove_switch", st[1]])
            ops.append(["remove_node", st[1]])
            ops.append(["remove_facility", st[1]])      # wrong kind: must raise
            ops.append(["node_remove_ns", ["node", st[1]], st[1] + "-ns"])
        elif st[0] == "service":
            ops.append(["remove_network_service", st[1]])
            ops.append(["svc_remove_interface", st[1]])
        elif st[0] == "link":
            ops.append(["remove_link", st[1]])
        elif st[0] == "nodesvc":
            ops.append(["node_remove_ns", ["node", st[1]], st[2]])
            ops.append(["remove_network_service", st[2]])
            for j in range(st[3]):
                ops.append(["remove_interface", st[1], st[2], j])
    sub = any(st[0] == "opts" and st[1].get("substrate") for st in recipe)
    if not sub:
        # (an experiment topology refuses NetworkService.remove_interface: offered as svc_remove_interface above)
        ops = [op for op in ops if op[0] != "remove_interface"]
    if sub:
        for st in recipe:
            # the service of a switch / a facility: remove one of its interfaces through a looked-up handle
            if st[0] == "switch":
                ops.append(["remove_interface", st[1], st[1] + "-ns", 0])
        return ops
    for st in recipe:
        if st[0] in ("service", "connect"):
            for x in (st[2] if st[0] == "service" else [st[2]]):
                ops.append(["remove_link", linkname(x)])
    for s in svcs:
        for i in all_ifrefs(recipe):
            ops.append(["disconnect", s, i])
        for s2 in svcs:
            if s != s2:
                ops.append(["unpeer", s, s2])
    if any(st[0] == "switch" for st in recipe) or True:
        ops.append(["prune"])
    return ops


def enumerate_name_ops(recipe):
    """Calls whose name resolves to nothing, to an element of another class, or to a node of the wrong kind: each must
    raise and change nothing.  Names of other classes that are equal to / prefixes of the addressed class are the point."""
    ops = []
    nodes = [st[1] for st in recipe if st[0] == "node"]
    svcs = [st[1] for st in recipe if st[0] == "service"]
    links = [st[1] for st in recipe if st[0] == "link"]
    comps = [(st[1], st[2]) for st in recipe if st[0] == "comp"]
    for nm in svcs[:1] + links[:1] + ["nope"]:
        ops.append(["remove_node", nm, "__absent__"])
        ops.append(["remove_facility", nm, "__absent__"])
    for nm in nodes[:1] + links[:1] + ["nope"]:
        ops.append(["remove_network_service", nm, "__absent__"])
    for nm in nodes[:1] + svcs[:1] + ["nope"]:
        ops.append(["remove_link", nm, "__absent__"])
    for nm in nodes[:1]:
        ops.append(["remove_switch", nm, "__absent__"])      # a VM is not a switch
    for n, c in comps[:2]:
        ops.append(["remove_component", n, c + "0", "__absent__"])
        ops.append(["remove_component", n, n, "__absent__"])
    for st in recipe:
        if st[0] == "child":
            ops.append(["remove_child", ["n", st[1], st[2], st[3]], st[4] + "0", "__absent__"])
            break
    return ops


def linkname(ref):
    """Name connect_interface() gives to the implicit link of this interface (parent node name - interface name - link)."""
    if ref[0] == "n":
        return "%s-%s-p%d-link" % (ref[1], ref[2], ref[3] + 1)
    if ref[0] == "c":
        return "%s-%s-link" % (ref[1], ref[4])
    if ref[0] == "f":
        return None
    if ref[0] == "s":
        # (ports p1, p10, p100 in every service of the node: two services of one node give the same link name twice)
        return "%s-p1%s-link" % (ref[1], "0" * ref[3])
    return "%s-p%d-link" % (ref[1], ref[2] + 1)


class Handles:
    """The handles an operation is performed through, with a way to look each one up afresh."""

    def __init__(self):
        self.items = []     # (label, handle, fresh-lookup thunk)


def run_op(b, op, snap):
    """Apply one operation through the public API. Returns (status, handles) where status is "ok" or the error kind."""
    from core import err_kind
    t = b.t
    hs = Handles()
    k = op[0]
    try:
        if k == "remove_node":
            t.remove_node(name=op[1])
        elif k == "remove_switch":
            t.remove_switch(name=op[1])
        elif k == "remove_facility":
            t.remove_facility(name=op[1])
        elif k == "remove_component":
            n = t.nodes[op[1]]
            n.remove_component(name=op[2])
            hs.items.append(("node", n, lambda: t.nodes[op[1]]))
        elif k == "remove_storage":
            n = t.nodes[op[1]]
            n.remove_storage(name=op[2])
            hs.items.append(("node", n, lambda: t.nodes[op[1]]))
        elif k == "node_remove_ns":
            n = t.facilities[op[1][1]] if op[1][0] == "fac" else t.nodes[op[1][1]]
            n.remove_network_service(name=op[2])
            hs.items.append(("node", n, (lambda: t.facilities[op[1][1]]) if op[1][0] == "fac" else (lambda: t.nodes[op[1][1]])))
        elif k == "remove_network_service":
            t.remove_network_service(name=op[1])
        elif k == "remove_link":
            t.remove_link(name=op[1])
        elif k == "disconnect":
            s = b.svc[op[1]]
            hs.items.append(("service", s, lambda: t.network_services[op[1]]))
            s.disconnect_interface(resolve_if(b, op[2]))
        elif k == "unpeer":
            s, s2 = b.svc[op[1]], b.svc[op[2]]
            hs.items.append(("service", s, lambda: t.network_services[op[1]]))
            hs.items.append(("other", s2, lambda: t.network_services[op[2]]))
            s.unpeer(s2)
        elif k == "remove_child":
            p = resolve_if(b, op[1])
            hs.items.append(("interface", p, lambda: resolve_if(b, op[1])))
            p.remove_child_interface(name=op[2])
        elif k == "svc_remove_interface":
            s = b.svc[op[1]]
            hs.items.append(("service", s, lambda: t.network_services[op[1]]))
            names = [i.name for i in s.interface_list]
            s.remove_interface(name=names[0] if names else "nope")
        elif k == "remove_interface":
            # through a handle that is in step with the graph: looked up just before the call
            s = t.nodes[op[1]].network_services[op[2]]
            hs.items.append(("service", s, lambda: t.nodes[op[1]].network_services[op[2]]))
            s.remove_interface(name=s.interface_list[op[3]].name)
        elif k == "prune":
            t.prune(reservation_state=PRUNE_STATE)
        else:
            raise ValueError(op)
        return "ok", hs
    except Exception as e:
        return err_kind(e), hs


# --------------------------------------------------------------------------
# what the property says must disappear (independent of the removal code)


def roots_of(b, snap, op, recipe):
    """Canonical ids of the element(s) the operation addresses, resolved through lookups only.
    Returns (roots, applicable): applicable False means the call must fail and change nothing."""
    t = b.t
    k = op[0]
    R = snap.ranks
    by_name = {}
    for c, (cl, ty, nm, _) in snap.nodes.items():
        by_name.setdefault((cl, nm), []).append(c)
    if k in ("remove_node", "remove_switch", "remove_facility"):
        c = by_name.get(("NetworkNode", op[1]), [])
        if not c:
            return [], False
        ty = snap.nodes[c[0]][1]
        if k == "remove_node" and ty == "Facility":
            return c[:1], False
        if k == "remove_switch" and ty != "Switch":
            return c[:1], False
        if k == "remove_facility" and ty != "Facility":
            return c[:1], False
        return c[:1], True
    if k in ("remove_component", "remove_storage"):
        return [R[t.nodes[op[1]].components[op[2]].node_id]], True
    if k == "node_remove_ns":
        n = t.facilities[op[1][1]] if op[1][0] == "fac" else t.nodes[op[1][1]]
        return [R[n.network_services[op[2]].node_id]], True
    if k == "remove_network_service":
        c = by_name.get(("NetworkService", op[1]), [])
        if len(c) > 1:
            # services of different nodes may carry the same name: the topology-level call cannot tell which one is meant,
            # find_node_by_name raises and nothing may change
            return [], False
        return c[:1], bool(c)
    if k == "remove_link":
        c = by_name.get(("Link", op[1]), [])
        if len(c) > 1:
            raise KeyError("ambiguous link name")      # addressed by name: skipped (C07 owns name uniqueness)
        return c[:1], bool(c)
    if k == "remove_child":
        p = resolve_if(b, op[1])
        return [R[p.interfaces[op[2]].node_id]], True
    if k == "remove_interface":
        s = t.nodes[op[1]].network_services[op[2]]
        return [R[s.interface_list[op[3]].node_id]], True
    if k == "prune":
        roots = []
        for st in recipe:
            if st[0] == "mark":
                if st[1] == "node":
                    roots.append(by_name[("NetworkNode", st[2])][0])
                elif st[1] == "comp":
                    roots.append(R[t.nodes[st[2]].components[st[3]].node_id])
                elif st[1] == "service":
                    roots.append(by_name[("NetworkService", st[2])][0])
                elif st[1] == "iface":
                    roots.append(R[resolve_if(b, st[2]).node_id])
        return roots, True
    return [], True


def expected_deleted(b, snap, op, recipe):
    """(set of canonical ids that must disappear, must_succeed)."""
    k = op[0]
    adj = snap.adj()
    if k == "disconnect":
        # the peering artefacts created for this interface: the ServicePort across a two-ended Link, and that Link
        i = snap.ranks[resolve_if(b, op[2]).node_id]
        out = set()
        for l, r in adj[i]:
            if snap.nodes[l][0] == "Link":
                E = link_ends(snap, l, adj)
                if len(E) == 2:
                    (sp,) = E - {i}
                    if snap.nodes[sp][1] == "ServicePort":
                        out |= {sp, l}
        return out, True
    if k == "unpeer":
        a = snap.ranks[b.svc[op[1]].node_id]
        z = snap.ranks[b.svc[op[2]].node_id]
        out = set()
        found = False
        for sp, r in sorted(adj[a]):
            if snap.nodes[sp][0] != "ConnectionPoint" or snap.nodes[sp][1] != "ServicePort" or found:
                continue
            for l, _ in adj[sp]:
                if snap.nodes[l][0] == "Link":
                    for sp2 in link_ends(snap, l, adj) - {sp}:
                        if snap.nodes[sp2][1] == "ServicePort" and (z, "connects") in adj[sp2] and len(link_ends(snap, l, adj)) == 2:
                            out = {sp, l, sp2}
                            found = True
        return out, found
    if k == "svc_remove_interface":
        return set(), False
    roots, ok = roots_of(b, snap, op, recipe)
    if not ok:
        return set(), False
    if k == "remove_interface":
        # remove_interface removes the interface and what it owns; it is not a disconnect (no service-side port involved)
        return owned(snap, roots, with_ports=False), True
    return owned(snap, roots), True
