"""C08 helpers: topology recipes built through the public API, canonical snapshots, the declarative
`owned` closure (brute force, independent of the removal code) and the removal operations.

A *recipe* is a JSON-able list of building calls; `build(recipe)` replays it on a fresh
ExperimentTopology (fresh GraphID each time, so that every removal is applied to its own copy).
Canonical node id = rank of the node in building order (internal ids are handed out sequentially),
so that the same recipe always yields the same canonical graph.
"""
import itertools

import fim.user as fu
from fim.user.topology import ExperimentTopology, SubstrateTopology
from fim.user.interface import Interface
from fim.slivers.capacities_labels import Labels, ReservationInfo
from fim.graph.abc_property_graph import ABCPropertyGraph

SITES = ["RENC", "UKY", "LBNL"]
NICS = {"shared": fu.ComponentModelType.SharedNIC_ConnectX_6, "smart6": fu.ComponentModelType.SmartNIC_ConnectX_6,
        "smart5": fu.ComponentModelType.SmartNIC_ConnectX_5, "gpu": fu.ComponentModelType.GPU_Tesla_T4,
        "nvme": fu.ComponentModelType.NVME_P4510}
CLS = {"NetworkNode": 0, "Component": 1, "NetworkService": 2, "ConnectionPoint": 3, "Link": 4}
PRUNE_STATE = "Failed"


# --------------------------------------------------------------------------
# recipes


def gen_recipe(rng, size=None):
    """Random building history: nodes with components (0-2 ports), sub-interfaces, a facility, a switch,
    services with connected interfaces, peerings, explicit links with 1..4 ends, reservation marks."""
    size = size or rng.choice([1, 2, 2, 3, 3, 4])
    # naming style: "plain" = globally distinct names; "short" = names reused wherever the API allows (component names
    # unique per node, sub-interface names per parent port); "prefix" = names that are prefixes of each other
    # (nic1/nic10, n1/n1-nic1, net/net1, v1/v10): elements are looked up by derived names, so equal names and
    # name prefixes are where a removal can hit a sibling
    # "clash" = the same names used across classes (a node, a component, a service and a link all called n1; services net /
    # links net1): lookups filter by class, and the derived port / link names then collide in interesting ways
    style = rng.choice(["plain", "short", "prefix", "prefix", "clash"])
    short = style != "plain"
    NN = ["n1", "n1-nic1", "n10", "n1-nic10"] if style in ("prefix", "clash") else ["n%d" % k for k in range(4)]
    CN = ["nic1", "nic10", "nic100"] if style == "prefix" else ["n1", "n10", "n1-nic1"] if style == "clash" else ["nic0", "nic1", "nic2"]
    VN = ["v1", "v10", "v100"] if style in ("prefix", "clash") else ["v100", "v101", "v102"]
    SN = ["net", "net1", "net10"] if style == "prefix" else ["n1", "n10", "n1-nic1"] if style == "clash" else ["s0", "s1", "s2"]
    LN = ["net", "n1", "n10", "net1", "l4", "l5"] if style == "clash" else ["l%d" % k for k in range(6)]
    r = []
    if rng.random() < 0.3:
        # caller-supplied node ids, prefix-related (a1 / a10 / a1-b / a1:c0 ...)
        r.append(["opts", {"ids": True}])
    ifs = []      # symbolic interface refs: ["n", node, comp, idx] / ["c", node, comp, idx, child] / ["f", fac, idx] / ["w", sw, idx]
    nodes = []
    for k in range(size):
        nn = NN[k]
        r.append(["node", nn, rng.choice(SITES)])
        nodes.append(nn)
        for c in range(rng.choice([0, 1, 1, 2, 2, 3])):
            kind = rng.choice(["shared", "smart6", "smart6", "smart5", "gpu", "nvme"])
            # half of the recipes reuse component / sub-interface names wherever the API allows it (component names are
            # unique per node, sub-interface names per parent port): equal-named ports then meet in one service
            cn = CN[c] if short else "%s-c%d" % (nn, c)
            r.append(["comp", nn, cn, kind])
            nports = {"shared": 1, "smart6": 2, "smart5": 2}.get(kind, 0)
            for p in range(nports):
                ifs.append(["n", nn, cn, p])
                if kind != "shared" and rng.random() < 0.35:
                    for ch in range(rng.choice([1, 1, 2, 3])):
                        chn = VN[ch] if short else "%s-p%d-ch%d" % (cn, p, ch)
                        r.append(["child", nn, cn, p, chn, str(100 + ch)])
                        ifs.append(["c", nn, cn, p, chn])
    if rng.random() < 0.5:
        nfi = rng.choice([1, 1, 2, 3])
        r.append(["facility", "fac0", rng.choice(SITES), nfi])
        for p in range(nfi):
            ifs.append(["f", "fac0", p])
    if rng.random() < 0.35:
        npo = rng.choice([1, 2, 3])
        r.append(["switch", "sw0", rng.choice(SITES), npo])
        for p in range(npo):
            ifs.append(["w", "sw0", p])
    rng.shuffle(ifs)
    free = list(ifs)
    svcs = []
    for s in range(rng.choice([0, 1, 1, 2, 2, 3])):
        sn = SN[s]
        k = rng.choice([0, 1, 2, 2, 3])
        mine, free = free[:k], free[k:]
        r.append(["service", sn, mine])
        svcs.append(sn)
    # later connect_interface calls
    for sn in svcs:
        if free and rng.random() < 0.3:
            r.append(["connect", sn, free.pop()])
    # peerings (ASM style)
    for a, b in itertools.combinations(svcs, 2):
        if rng.random() < 0.3:
            r.append(["peer", a, b])
    # explicit links between still-unconnected interfaces (1..4 ends)
    # (a link never has two ends in one interface family = a port and its sub-interfaces: see ASSUMPTIONS)
    ln = 0
    while free and rng.random() < 0.5:
        k = min(len(free), rng.choice([1, 2, 2, 2, 3, 3, 4]))
        ends, rest, fams = [], [], set()
        for x in free:
            fam = tuple(x[1:4]) if x[0] in ("n", "c") else tuple(x)
            if len(ends) < k and fam not in fams:
                ends.append(x)
                fams.add(fam)
            else:
                rest.append(x)
        free = rest
        r.append(["link", LN[ln % len(LN)] if ln < len(LN) else "l%d" % ln, ends])
        ln += 1
    # reservation marks for prune
    marks = []
    for nn in nodes:
        if rng.random() < 0.25:
            marks.append(["node", nn])
    for c in [x for x in r if x[0] == "comp"]:
        if rng.random() < 0.15:
            marks.append(["comp", c[1], c[2]])
        if c[3] in ("shared", "smart6", "smart5") and rng.random() < 0.12:
            # the component's own service: nested in its component and node when those are marked too
            marks.append(["service", "%s-%s-l2ovs" % (c[1], c[2])])
    for sn in svcs:
        if rng.random() < 0.25:
            marks.append(["service", sn])
    for i in ifs:
        if rng.random() < 0.08 and i[0] == "n":
            marks.append(["iface", i])
    for m in marks:
        r.append(["mark"] + m)
    return r


def gen_substrate_recipe(rng, size=None):
    """Substrate flavour: every element carries a caller-supplied node id (prefix-related), interfaces belong to services of
    nodes / switches / facilities, connections are explicit links (connect_interface / peer need generated ids and are
    refused in a substrate topology), NetworkService.remove_interface is allowed."""
    size = size or rng.choice([1, 2, 2, 3])
    r = [["opts", {"substrate": True, "ids": True}]]
    NN = ["n1", "n10", "n1-nic1", "n100"]
    CN = ["nic1", "nic10", "nic100"]
    free = []
    for k in range(size):
        nn = NN[k]
        r.append(["node", nn, rng.choice(SITES)])
        for c in range(rng.choice([0, 1, 1, 2])):
            kind = rng.choice(["shared", "smart6", "smart5", "gpu"])
            r.append(["comp", nn, CN[c], kind])
            for p in range({"shared": 1, "smart6": 2, "smart5": 2}.get(kind, 0)):
                free.append(["n", nn, CN[c], p])
                if kind != "shared" and rng.random() < 0.35:
                    for ch in range(rng.choice([1, 2])):
                        r.append(["child", nn, CN[c], p, ["v1", "v10"][ch], str(100 + ch)])
                        free.append(["c", nn, CN[c], p, ["v1", "v10"][ch]])
        if rng.random() < 0.7:
            sn = rng.choice(["ns", nn, nn + "-ns"])         # a service named like its node: lookups go by class
            k2 = rng.choice([1, 2, 3])
            r.append(["nodesvc", nn, sn, k2])
            free.extend(["s", nn, sn, j] for j in range(k2))
    if rng.random() < 0.5:
        npo = rng.choice([1, 2, 3])
        r.append(["switch", "sw1", rng.choice(SITES), npo])
        free.extend(["w", "sw1", p] for p in range(npo))
    if rng.random() < 0.4:
        nfi = rng.choice([1, 2, 3])
        r.append(["facility", "fac1", rng.choice(SITES), nfi])
        free.extend(["f", "fac1", p] for p in range(nfi))
    rng.shuffle(free)
    ln = 0
    LN = ["l1", "l10", "n1", "l1-x", "l100"]
    while free and rng.random() < 0.75 and ln < len(LN):
        k = min(len(free), rng.choice([1, 2, 2, 2, 3, 3, 4]))
        ends, rest, fams = [], [], set()
        for x in free:
            fam = tuple(x[1:4]) if x[0] in ("n", "c") else tuple(x)
            if len(ends) < k and fam not in fams:
                ends.append(x)
                fams.add(fam)
            else:
                rest.append(x)
        free = rest
        r.append(["link", LN[ln], ends])
        ln += 1
    return r


def corner_recipes():
    """Deterministic corner cases, smallest first."""
    A = ["n", "n0", "n0-c0", 0]
    B = ["n", "n1", "n1-c0", 0]
    B2 = ["n", "n1", "n1-c0", 1]
    base = [["node", "n0", "RENC"], ["comp", "n0", "n0-c0", "smart6"], ["node", "n1", "RENC"], ["comp", "n1", "n1-c0", "smart6"]]
    out = []
    out.append([["node", "n0", "RENC"]])
    out.append([["node", "n0", "RENC"], ["comp", "n0", "n0-c0", "gpu"]])
    out.append(base + [["service", "s0", [A, B]]])
    # two services that do not peer but meet in node n1
    out.append(base + [["node", "n2", "UKY"], ["comp", "n2", "n2-c0", "shared"],
                       ["service", "s0", [A, B]], ["service", "s1", [B2, ["n", "n2", "n2-c0", 0]]]])
    # peered services
    out.append(base + [["service", "s0", [A]], ["service", "s1", [B]], ["peer", "s0", "s1"]])
    # sub-interfaces, one connected
    out.append(base + [["child", "n0", "n0-c0", 0, "ch0", "100"], ["child", "n0", "n0-c0", 0, "ch1", "101"],
                       ["service", "s0", [["c", "n0", "n0-c0", 0, "ch0"], B]]])
    # only child, unconnected and connected
    out.append(base + [["child", "n0", "n0-c0", 0, "ch0", "100"]])
    out.append(base + [["child", "n0", "n0-c0", 0, "ch0", "100"], ["service", "s0", [["c", "n0", "n0-c0", 0, "ch0"]]]])
    # explicit links with 1, 2, 3 ends
    out.append(base + [["link", "l0", [A]]])
    out.append(base + [["link", "l0", [A, B]]])
    out.append(base + [["link", "l0", [A, B, B2]]])
    out.append(base + [["node", "n2", "UKY"], ["comp", "n2", "n2-c0", "shared"], ["link", "l0", [A, B, ["n", "n2", "n2-c0", 0]]]])
    # facility and switch, connected
    out.append([["node", "n0", "RENC"], ["comp", "n0", "n0-c0", "shared"], ["facility", "fac0", "RENC", 1], ["switch", "sw0", "RENC", 2],
                ["service", "s0", [["n", "n0", "n0-c0", 0], ["f", "fac0", 0], ["w", "sw0", 0]]]])
    # prune: nested marks
    out.append(base + [["service", "s0", [A, B]], ["mark", "node", "n0"], ["mark", "service", "s0"]])
    out.append(base + [["service", "s0", [A, B]], ["mark", "node", "n0"], ["mark", "comp", "n0", "n0-c0"]])
    out.append(base + [["service", "s0", [A, B]], ["mark", "comp", "n1", "n1-c0"], ["mark", "iface", B]])
    # prune: a marked component service inside a marked component inside a marked node, and one of its ports
    out.append(base + [["service", "s0", [A, B]], ["mark", "node", "n0"], ["mark", "comp", "n0", "n0-c0"],
                       ["mark", "service", "n0-n0-c0-l2ovs"], ["mark", "iface", A], ["mark", "service", "n1-n1-c0-l2ovs"]])
    # a service next to an explicit link (disconnect must leave the far interface alone)
    out.append(base + [["service", "s0", [["n", "n0", "n0-c0", 1]]], ["link", "l0", [A, B]]])
    # equal-named sub-interfaces on two ports of one node (service ports n0-v100 twice) and on another node, in one service
    V = [["node", "n0", "RENC"], ["comp", "n0", "nic1", "smart6"], ["child", "n0", "nic1", 0, "v100", "100"],
         ["child", "n0", "nic1", 1, "v100", "100"], ["node", "n1", "RENC"], ["comp", "n1", "nic1", "smart6"],
         ["child", "n1", "nic1", 0, "v100", "100"]]
    c1, c2, c3 = ["c", "n0", "nic1", 0, "v100"], ["c", "n0", "nic1", 1, "v100"], ["c", "n1", "nic1", 0, "v100"]
    out.append(V + [["service", "s0", [c1, c2, ["n", "n1", "nic1", 1]]]])
    out.append(V + [["service", "s0", [c1, c2, c3]], ["service", "s1", [["n", "n1", "nic1", 1]]], ["peer", "s0", "s1"]])
    out.append(V + [["service", "s0", [c1]], ["service", "s1", [c2, c3]], ["peer", "s0", "s1"], ["mark", "node", "n0"]])
    # names that are prefixes of each other: sibling components nic1 / nic10, nodes n1 / n1-nic1, services net / net1
    PX = [["node", "n1", "RENC"], ["comp", "n1", "nic1", "smart6"], ["comp", "n1", "nic10", "shared"],
          ["node", "n1-nic1", "RENC"], ["comp", "n1-nic1", "nic1", "smart6"], ["child", "n1", "nic1", 0, "v1", "100"],
          ["child", "n1", "nic1", 0, "v10", "101"]]
    out.append(PX + [["service", "net", [["n", "n1", "nic10", 0], ["n", "n1-nic1", "nic1", 0]]],
                     ["service", "net1", [["n", "n1", "nic1", 1], ["c", "n1", "nic1", 0, "v10"]]]])
    out.append(PX + [["service", "net1", [["n", "n1", "nic10", 0], ["c", "n1", "nic1", 0, "v1"], ["n", "n1-nic1", "nic1", 1]]],
                     ["service", "net", [["c", "n1", "nic1", 0, "v10"]]], ["peer", "net", "net1"], ["mark", "comp", "n1", "nic1"]])
    # prune of a node whose sub-interface is connected
    out.append(base + [["child", "n0", "n0-c0", 0, "ch0", "100"], ["service", "s0", [["c", "n0", "n0-c0", 0, "ch0"], B]], ["mark", "node", "n0"]])
    return out


class Built:
    def __init__(self, substrate=False):
        self.t = SubstrateTopology() if substrate else ExperimentTopology()
        self.svc = {}      # name -> handle returned by the constructor (kept across operations)
        self.children = {}  # (node, comp, port) -> parent Interface handle


def resolve_if(b, ref):
    t = b.t
    if ref[0] == "n":
        return t.nodes[ref[1]].components[ref[2]].interface_list[ref[3]]
    if ref[0] == "c":
        p = t.nodes[ref[1]].components[ref[2]].interface_list[ref[3]]
        return p.interfaces[ref[4]]
    if ref[0] == "f":
        return t.facilities[ref[1]].interface_list[ref[2]]
    if ref[0] == "w":
        return t.nodes[ref[1]].interface_list[ref[2]]
    if ref[0] == "s":
        return t.nodes[ref[1]].network_services[ref[2]].interface_list[ref[3]]
    raise ValueError(ref)


NODE_IDS = ["a1", "a10", "a1-b", "a1-b1", "a100"]


def build(recipe):
    sub = any(st[0] == "opts" and st[1].get("substrate") for st in recipe)
    b = Built(substrate=sub)
    t = b.t
    ids = False
    nidx = {}

    def nid(kind, *parts):
        """caller-supplied node id (prefix-related across elements) or None"""
        if not ids:
            return None
        if kind == "node":
            nidx.setdefault(parts[0], NODE_IDS[len(nidx) % len(NODE_IDS)] + ("x" * (len(nidx) // len(NODE_IDS))))
            return nidx[parts[0]]
        if kind == "comp":
            return "%s:c%s" % (nidx[parts[0]], parts[1])
        return "%s:%s" % (kind, ":".join(str(p) for p in parts))
    for st in recipe:
        k = st[0]
        if k == "opts":
            ids = bool(st[1].get("ids"))
        elif k == "node":
            if sub:
                t.add_node(name=st[1], site=st[2], node_id=nid("node", st[1]), ntype=fu.NodeType.Server)
            else:
                t.add_node(name=st[1], site=st[2], node_id=nid("node", st[1]))
        elif k == "nodesvc":
            ns = t.nodes[st[1]].add_network_service(name=st[2], node_id=nid("ns", nidx.get(st[1]), st[2]), nstype=fu.ServiceType.MPLS)
            for j in range(st[3]):
                # port names p1, p10, p100: prefixes of each other
                ns.add_interface(name="p1" + "0" * j, node_id=nid("p", nidx.get(st[1]), st[2], j), itype=fu.InterfaceType.TrunkPort)
        elif k == "comp":
            t.nodes[st[1]].add_component(name=st[2], model_type=NICS[st[3]], node_id=nid("comp", st[1], st[2]))
        elif k == "child":
            p = t.nodes[st[1]].components[st[2]].interface_list[st[3]]
            p.add_child_interface(name=st[4], labels=Labels(vlan=st[5]), node_id=nid("v", nidx.get(st[1]), st[2], st[3], st[4]))
        elif k == "facility":
            if st[3] == 1:
                t.add_facility(name=st[1], site=st[2], labels=Labels(vlan="200"), node_id=nid("f", st[1]))
            else:
                t.add_facility(name=st[1], site=st[2], node_id=nid("f", st[1]),
                               interfaces=[("%s-i%d" % (st[1], j), Labels(vlan=str(200 + j)), None) for j in range(st[3])])
        elif k == "switch":
            t.add_switch(name=st[1], site=st[2], nports=st[3], node_id=nid("w", st[1]))
        elif k == "service":
            b.svc[st[1]] = t.add_network_service(name=st[1], nstype=fu.ServiceType.L2Bridge, node_id=nid("s", st[1]),
                                                 interfaces=[resolve_if(b, x) for x in st[2]])
        elif k == "connect":
            b.svc[st[1]].connect_interface(resolve_if(b, st[2]))
        elif k == "peer":
            b.svc[st[1]].peer(b.svc[st[2]])
        elif k == "link":
            t.add_link(name=st[1], ltype=fu.LinkType.L2Path, interfaces=[resolve_if(b, x) for x in st[2]], node_id=nid("l", st[1]))
        elif k == "mark":
            ri = ReservationInfo(reservation_state=PRUNE_STATE)
            if st[1] == "node":
                t.nodes[st[2]].reservation_info = ri
            elif st[1] == "comp":
                t.nodes[st[2]].components[st[3]].reservation_info = ri
            elif st[1] == "service":
                t.network_services[st[2]].reservation_info = ri
            elif st[1] == "iface":
                resolve_if(b, st[2]).reservation_info = ri
        else:
            raise ValueError(st)
    return b


# --------------------------------------------------------------------------
# canonical snapshot


class Snap:
    """nodes: cid -> (class, type, name, frozen props); edges: set of (cid_lo, cid_hi, rel, frozen props)."""

    def __init__(self, t, ranks=None):
        g = t.graph_model.storage.extract_graph(t.graph_model.graph_id)
        ints = sorted(g.nodes) if g is not None else []
        if ranks is None:
            ranks = {g.nodes[i]["NodeID"]: r for r, i in enumerate(ints)}
        self.ranks = ranks
        self.nodes = {}
        self.edges = set()
        for i in ints:
            d = dict(g.nodes[i])
            nid = d.pop("NodeID")
            d.pop("GraphID", None)
            self.nodes[ranks[nid]] = (d.get("Class"), d.get("Type"), d.get("Name"), tuple(sorted((k, str(v)) for k, v in d.items())))
        if g is not None:
            for a, z, d in g.edges(data=True):
                ca, cz = ranks[g.nodes[a]["NodeID"]], ranks[g.nodes[z]["NodeID"]]
                self.edges.add((min(ca, cz), max(ca, cz), d.get("Class"), tuple(sorted((k, str(v)) for k, v in d.items()))))

    def wire_nodes(self):
        # [cid, class index, kind] kind: 1 ServicePort, 2 Facility node, 3 Switch node, 4 DedicatedPort, 0 other
        out = []
        for c in sorted(self.nodes):
            cl, ty, _, _ = self.nodes[c]
            kind = {"ServicePort": 1, "Facility": 2, "Switch": 3, "DedicatedPort": 4}.get(ty, 0)
            out.append([c, CLS[cl], kind])
        return out

    def wire_edges(self):
        return [[a, z, 0 if rel == "has" else 1] for a, z, rel, _ in sorted(self.edges)]

    def adj(self):
        m = {c: set() for c in self.nodes}
        for a, z, rel, _ in self.edges:
            m[a].add((z, rel))
            m[z].add((a, rel))
        return m


def cid_of(snap, elem):
    return snap.ranks[elem.node_id]


# --------------------------------------------------------------------------
# the declarative owned set (brute force; shares nothing with the removal code)


def down_closure(snap, x):
    """Reflexive-transitive ownership below x: has edges go Node > Component > NetworkService;
    connects edges go NetworkService > ConnectionPoint and parent ConnectionPoint > sub-interface
    (the parent is the one attached to a NetworkService)."""
    adj = snap.adj()
    cls = {c: snap.nodes[c][0] for c in snap.nodes}
    has_ns = {c: any(cls[y] == "NetworkService" and r == "connects" for y, r in adj[c]) for c in snap.nodes}
    rank = {"NetworkNode": 0, "Component": 1, "NetworkService": 2}
    seen, todo = {x}, [x]
    while todo:
        a = todo.pop()
        for y, r in adj[a]:
            own = False
            if r == "has" and cls[a] in rank and cls[y] in rank and rank[cls[a]] < rank[cls[y]]:
                own = True
            elif r == "connects" and cls[a] == "NetworkService" and cls[y] == "ConnectionPoint":
                own = True
            elif r == "connects" and cls[a] == "ConnectionPoint" and cls[y] == "ConnectionPoint" and has_ns[a] and not has_ns[y]:
                own = True
            if own and y not in seen:
                seen.add(y)
                todo.append(y)
    return seen


def link_ends(snap, l, adj=None):
    adj = adj or snap.adj()
    return {y for y, r in adj[l] if r == "connects" and snap.nodes[y][0] == "ConnectionPoint"}


def owned(snap, roots, with_ports=True):
    """owned = closure(roots) + peering artefacts: for every owned interface joined by a two-ended Link to a
    ServicePort, that port; and every Link that joined >= 2 interfaces and is left with <= 1."""
    adj = snap.adj()
    C = set()
    for x in roots:
        if snap.nodes[x][0] == "Link":
            C.add(x)
        else:
            C |= down_closure(snap, x)
    links = [c for c in snap.nodes if snap.nodes[c][0] == "Link"]
    P = set()
    if with_ports:
        for l in links:
            E = link_ends(snap, l, adj)
            if l in C:
                # a removed Link takes the ServicePorts it peered with it (they exist only to peer over it)
                P |= {sp for sp in E if snap.nodes[sp][1] == "ServicePort"}
            elif len(E) == 2:
                a, z = tuple(E)
                for i, sp in ((a, z), (z, a)):
                    if i in C and sp not in C and snap.nodes[sp][1] == "ServicePort":
                        P.add(sp)
    O = C | P
    L = set()
    for l in links:
        E = link_ends(snap, l, adj)
        if len(E) >= 2 and (E & O) and len(E - O) <= 1:
            L.add(l)
    return O | L


# --------------------------------------------------------------------------
# removal operations through the public API


class Saved:
    pass


def save(b):
    """Copy of the model state (the graph's slice of the shared store) and of the kept handles' caches."""
    gm = b.t.graph_model
    big = gm.storage.get_graph(gm.graph_id)
    sv = Saved()
    ids = [n for n, d in big.nodes(data=True) if d.get("GraphID") == gm.graph_id]
    sv.nodes = [(n, dict(big.nodes[n])) for n in ids]
    sv.edges = [(a, z, dict(d)) for a, z, d in big.edges(ids, data=True)]
    sv.handles = {k: list(h._interfaces) for k, h in b.svc.items()}
    return sv


def restore(b, sv):
    gm = b.t.graph_model
    big = gm.storage.get_graph(gm.graph_id)
    big.remove_nodes_from([n for n, d in big.nodes(data=True) if d.get("GraphID") == gm.graph_id])
    big.add_nodes_from((n, dict(d)) for n, d in sv.nodes)
    big.add_edges_from((a, z, dict(d)) for a, z, d in sv.edges)
    for k, l in sv.handles.items():
        b.svc[k]._interfaces = list(l)


def dispose(b):
    b.t.graph_model.delete_graph()


def all_ifrefs(recipe):
    out = []
    for st in recipe:
        if st[0] == "comp":
            for p in range({"shared": 1, "smart6": 2, "smart5": 2}.get(st[3], 0)):
                out.append(["n", st[1], st[2], p])
        elif st[0] == "child":
            out.append(["c", st[1], st[2], st[3], st[4]])
        elif st[0] == "facility":
            out.extend(["f", st[1], p] for p in range(st[3]))
        elif st[0] == "switch":
            out.extend(["w", st[1], p] for p in range(st[3]))
        elif st[0] == "nodesvc":
            out.extend(["s", st[1], st[2], p] for p in range(st[3]))
    return out


def enumerate_ops(recipe):
    """Every applicable removal / disconnect / un-peer on the topology of this recipe (JSON-able)."""
    ops = []
    svcs = [st[1] for st in recipe if st[0] == "service"]
    for st in recipe:
        if st[0] == "node":
            ops.append(["remove_node", st[1]])
        elif st[0] == "comp":
            ops.append(["remove_component", st[1], st[2]])
            if st[3] == "nvme":
                ops.append(["remove_storage", st[1], st[2]])
            if st[3] in ("shared", "smart6", "smart5"):
                ops.append(["remove_network_service", "%s-%s-l2ovs" % (st[1], st[2])])
        elif st[0] == "child":
            ops.append(["remove_child", ["n", st[1], st[2], st[3]], st[4]])
        elif st[0] == "facility":
            ops.append(["remove_facility", st[1]])
            ops.append(["remove_node", st[1]])          # facilities are not in topology.nodes: must raise
            ops.append(["node_remove_ns", ["fac", st[1]], st[1] + "-ns"])
        elif st[0] == "switch":
            ops.append(["remove_switch", st[1]])
            ops.append(["remove_node", st[1]])
            ops.append(["remove_facility", st[1]])      # wrong kind: must raise
            ops.append(["node_remove_ns", ["node", st[1]], st[1] + "-ns"])
        elif st[0] == "service":
            ops.append(["remove_network_service", st[1]])
            ops.append(["svc_remove_interface", st[1]])
        elif st[0] == "link":
            ops.append(["remove_link", st[1]])
        elif st[0] == "nodesvc":
            ops.append(["node_remove_ns", ["node", st[1]], st[2]])
            ops.append(["remove_network_service", st[2]])
            for j in range(st[3]):
                ops.append(["remove_interface", st[1], st[2], j])
    sub = any(st[0] == "opts" and st[1].get("substrate") for st in recipe)
    if sub:
        for st in recipe:
            # the service of a switch / a facility: remove one of its interfaces through a looked-up handle
            if st[0] == "switch":
                ops.append(["remove_interface", st[1], st[1] + "-ns", 0])
        return ops
    for st in recipe:
        if st[0] in ("service", "connect"):
            for x in (st[2] if st[0] == "service" else [st[2]]):
                ops.append(["remove_link", linkname(x)])
    for s in svcs:
        for i in all_ifrefs(recipe):
            ops.append(["disconnect", s, i])
        for s2 in svcs:
            if s != s2:
                ops.append(["unpeer", s, s2])
    if any(st[0] == "switch" for st in recipe) or True:
        ops.append(["prune"])
    return ops


def enumerate_name_ops(recipe):
    """Calls whose name resolves to nothing, to an element of another class, or to a node of the wrong kind: each must
    raise and change nothing.  Names of other classes that are equal to / prefixes of the addressed class are the point."""
    ops = []
    nodes = [st[1] for st in recipe if st[0] == "node"]
    svcs = [st[1] for st in recipe if st[0] == "service"]
    links = [st[1] for st in recipe if st[0] == "link"]
    comps = [(st[1], st[2]) for st in recipe if st[0] == "comp"]
    for nm in svcs[:1] + links[:1] + ["nope"]:
        ops.append(["remove_node", nm, "__absent__"])
        ops.append(["remove_facility", nm, "__absent__"])
    for nm in nodes[:1] + links[:1] + ["nope"]:
        ops.append(["remove_network_service", nm, "__absent__"])
    for nm in nodes[:1] + svcs[:1] + ["nope"]:
        ops.append(["remove_link", nm, "__absent__"])
    for nm in nodes[:1]:
        ops.append(["remove_switch", nm, "__absent__"])      # a VM is not a switch
    for n, c in comps[:2]:
        ops.append(["remove_component", n, c + "0", "__absent__"])
        ops.append(["remove_component", n, n, "__absent__"])
    for st in recipe:
        if st[0] == "child":
            ops.append(["remove_child", ["n", st[1], st[2], st[3]], st[4] + "0", "__absent__"])
            break
    return ops


def linkname(ref):
    """Name connect_interface() gives to the implicit link of this interface (parent node name - interface name - link)."""
    if ref[0] == "n":
        return "%s-%s-p%d-link" % (ref[1], ref[2], ref[3] + 1)
    if ref[0] == "c":
        return "%s-%s-link" % (ref[1], ref[4])
    if ref[0] == "f":
        return None
    return "%s-p%d-link" % (ref[1], ref[2] + 1)


class Handles:
    """The handles an operation is performed through, with a way to look each one up afresh."""

    def __init__(self):
        self.items = []     # (label, handle, fresh-lookup thunk)


def run_op(b, op, snap):
    """Apply one operation through the public API. Returns (status, handles) where status is "ok" or the error kind."""
    from core import err_kind
    t = b.t
    hs = Handles()
    k = op[0]
    try:
        if k == "remove_node":
            t.remove_node(name=op[1])
        elif k == "remove_switch":
            t.remove_switch(name=op[1])
        elif k == "remove_facility":
            t.remove_facility(name=op[1])
        elif k == "remove_component":
            n = t.nodes[op[1]]
            n.remove_component(name=op[2])
            hs.items.append(("node", n, lambda: t.nodes[op[1]]))
        elif k == "remove_storage":
            n = t.nodes[op[1]]
            n.remove_storage(name=op[2])
            hs.items.append(("node", n, lambda: t.nodes[op[1]]))
        elif k == "node_remove_ns":
            n = t.facilities[op[1][1]] if op[1][0] == "fac" else t.nodes[op[1][1]]
            n.remove_network_service(name=op[2])
            hs.items.append(("node", n, (lambda: t.facilities[op[1][1]]) if op[1][0] == "fac" else (lambda: t.nodes[op[1][1]])))
        elif k == "remove_network_service":
            t.remove_network_service(name=op[1])
        elif k == "remove_link":
            t.remove_link(name=op[1])
        elif k == "disconnect":
            s = b.svc[op[1]]
            hs.items.append(("service", s, lambda: t.network_services[op[1]]))
            s.disconnect_interface(resolve_if(b, op[2]))
        elif k == "unpeer":
            s, s2 = b.svc[op[1]], b.svc[op[2]]
            hs.items.append(("service", s, lambda: t.network_services[op[1]]))
            hs.items.append(("other", s2, lambda: t.network_services[op[2]]))
            s.unpeer(s2)
        elif k == "remove_child":
            p = resolve_if(b, op[1])
            hs.items.append(("interface", p, lambda: resolve_if(b, op[1])))
            p.remove_child_interface(name=op[2])
        elif k == "svc_remove_interface":
            s = b.svc[op[1]]
            hs.items.append(("service", s, lambda: t.network_services[op[1]]))
            names = [i.name for i in s.interface_list]
            s.remove_interface(name=names[0] if names else "nope")
        elif k == "remove_interface":
            # through a handle that is in step with the graph: looked up just before the call
            s = t.nodes[op[1]].network_services[op[2]]
            hs.items.append(("service", s, lambda: t.nodes[op[1]].network_services[op[2]]))
            s.remove_interface(name=s.interface_list[op[3]].name)
        elif k == "prune":
            t.prune(reservation_state=PRUNE_STATE)
        else:
            raise ValueError(op)
        return "ok", hs
    except Exception as e:
        return err_kind(e), hs


# --------------------------------------------------------------------------
# what the property says must disappear (independent of the removal code)


def roots_of(b, snap, op, recipe):
    """Canonical ids of the element(s) the operation addresses, resolved through lookups only.
    Returns (roots, applicable): applicable False means the call must fail and change nothing."""
    t = b.t
    k = op[0]
    R = snap.ranks
    by_name = {}
    for c, (cl, ty, nm, _) in snap.nodes.items():
        by_name.setdefault((cl, nm), []).append(c)
    if k in ("remove_node", "remove_switch", "remove_facility"):
        c = by_name.get(("NetworkNode", op[1]), [])
        if not c:
            return [], False
        ty = snap.nodes[c[0]][1]
        if k == "remove_node" and ty == "Facility":
            return c[:1], False
        if k == "remove_switch" and ty != "Switch":
            return c[:1], False
        if k == "remove_facility" and ty != "Facility":
            return c[:1], False
        return c[:1], True
    if k in ("remove_component", "remove_storage"):
        return [R[t.nodes[op[1]].components[op[2]].node_id]], True
    if k == "node_remove_ns":
        n = t.facilities[op[1][1]] if op[1][0] == "fac" else t.nodes[op[1][1]]
        return [R[n.network_services[op[2]].node_id]], True
    if k == "remove_network_service":
        c = by_name.get(("NetworkService", op[1]), [])
        if len(c) > 1:
            # services of different nodes may carry the same name: the topology-level call cannot tell which one is meant,
            # find_node_by_name raises and nothing may change
            return [], False
        return c[:1], bool(c)
    if k == "remove_link":
        c = by_name.get(("Link", op[1]), [])
        if len(c) > 1:
            raise KeyError("ambiguous link name")      # addressed by name: skipped (C07 owns name uniqueness)
        return c[:1], bool(c)
    if k == "remove_child":
        p = resolve_if(b, op[1])
        return [R[p.interfaces[op[2]].node_id]], True
    if k == "remove_interface":
        s = t.nodes[op[1]].network_services[op[2]]
        return [R[s.interface_list[op[3]].node_id]], True
    if k == "prune":
        roots = []
        for st in recipe:
            if st[0] == "mark":
                if st[1] == "node":
                    roots.append(by_name[("NetworkNode", st[2])][0])
                elif st[1] == "comp":
                    roots.append(R[t.nodes[st[2]].components[st[3]].node_id])
                elif st[1] == "service":
                    roots.append(by_name[("NetworkService", st[2])][0])
                elif st[1] == "iface":
                    roots.append(R[resolve_if(b, st[2]).node_id])
        return roots, True
    return [], True


def expected_deleted(b, snap, op, recipe):
    """(set of canonical ids that must disappear, must_succeed)."""
    k = op[0]
    adj = snap.adj()
    if k == "disconnect":
        # the peering artefacts created for this interface: the ServicePort across a two-ended Link, and that Link
        i = snap.ranks[resolve_if(b, op[2]).node_id]
        out = set()
        for l, r in adj[i]:
            if snap.nodes[l][0] == "Link":
                E = link_ends(snap, l, adj)
                if len(E) == 2:
                    (sp,) = E - {i}
                    if snap.nodes[sp][1] == "ServicePort":
                        out |= {sp, l}
        return out, True
    if k == "unpeer":
        a = snap.ranks[b.svc[op[1]].node_id]
        z = snap.ranks[b.svc[op[2]].node_id]
        out = set()
        found = False
        for sp, r in sorted(adj[a]):
            if snap.nodes[sp][0] != "ConnectionPoint" or snap.nodes[sp][1] != "ServicePort" or found:
                continue
            for l, _ in adj[sp]:
                if snap.nodes[l][0] == "Link":
                    for sp2 in link_ends(snap, l, adj) - {sp}:
                        if snap.nodes[sp2][1] == "ServicePort" and (z, "connects") in adj[sp2] and len(link_ends(snap, l, adj)) == 2:
                            out = {sp, l, sp2}
                            found = True
        return out, found
    if k == "svc_remove_interface":
        return set(), False
    roots, ok = roots_of(b, snap, op, recipe)
    if not ok:
        return set(), False
    if k == "remove_interface":
        # remove_interface removes the interface and what it owns; it is not a disconnect (no service-side port involved)
        return owned(snap, roots, with_ports=False), True
    return owned(snap, roots), True
