"""Cheap synthetic aggregate models (ARMs) for C13, as wire graphs (see harness/props/c13.py `to_wire`).

Building a model through SubstrateTopology costs 0.2-3 s, partitioning a 40-90 node model another 1-25 s (every store
access of the in-memory backend is a linear networkx_query scan over ALL graphs of the store), so the API-built models
of lib_substrate give a few hundred evaluations per minute. The models here have the same SHAPE (sites with a dataplane
switch, its service and ports; workers with components, NIC services and ports; facilities behind a facing port shared
by several of them; patch links, inter-switch links) but are written straight into the store as 6-25 node graphs, so a
partition costs a few milliseconds and a quick run covers thousands of distinct delegation assignments:

  1..4 delegation ids; every element delegated to its family's id, to another id, to two ids, or to nobody;
  label-only / capacity-only / both; pool definition + references (also references whose definition went to another id);
  the 'None' marker and the empty object; stitch switches / services / ports (with and without delegations);
  links whose two ends are delegated differently; ports with several links; delegated links.

Entry texts are canonical JSON (`lib_substrate.cj`) of values that Delegations.from_json accepts; a third of the label
details are list-valued or falsy-but-valid (lists not in sorted order, with repeats, of one element, empty; '' values),
the way other tooling than the library's own Labels objects writes them. They are compared as JSON values.
"""
from lib_substrate import cj

CP, LINK, NS, NN, COMP = "ConnectionPoint", "Link", "NetworkService", "NetworkNode", "Component"
IDS = ["d1", "d2", "d3", "d4"]

_LAB = [{"vlan_range": "1-100"}, {"vlan_range": "1-4096", "local_name": "p1"}, {"bdf": "0000:41:00.0"}, {"local_name": "HundredGigE0/0/0/5"},
        # written by other tooling than the library's own Labels objects (a model file, a property set directly): list-valued labels in
        # the order the operator gave them (not sorted), with repeats, of one element, empty; falsy-but-valid values
        {"vlan_range": ["3000-3100", "1000-1100"]}, {"vlan_range": ["200-300", "100-150", "200-300"], "mac": "00:00:00:00:02:01"},
        {"ipv4_range": ["192.168.2.1-192.168.2.10", "192.168.1.1-192.168.1.10"], "ipv6_range": ["2001:db8::10-2001:db8::20", "2001:db8::1-2001:db8::5"]},
        {"mac": ["0C:42:A1:EA:C7:61", "0C:42:A1:EA:C7:60"], "local_name": ["p2", "p1", "p2"]}, {"vlan": ["200", "100", "200"], "bdf": ["0000:41:00.1", "0000:41:00.0"]},
        {"ipv4_subnet": ["192.168.2.0/24", "192.168.1.0/24"], "ipv6_subnet": ["2001:db8:1::/64", "2001:db8::/64"], "asn": ["65001", "65000"]},
        {"vlan_range": ["7-9"]}, {"vlan_range": [], "local_name": ""}, {"ipv6": "", "instance": "", "device_name": ["", ""]}, {"numa": ["1", "0", "1"], "inner_vlan": ["30", "20"]},
        {"ipv4": ["192.168.1.2", "192.168.1.1"], "ipv6": ["2001:db8::2", "2001:db8::1"], "local_type": ["t2", "t1"], "instance_parent": ["b", "a"]}]
_CAP = [{"unit": 1}, {"bw": 100}, {"core": 32, "ram": 128, "disk": 100}, {"unit": 4, "bw": 25}, {"cpu": 2, "burst_size": 8, "mtu": 9000}]


def entry_features(text):
    """histogram keys for the value classes an entry text has (list-valued fields: order, repeats, empty; '' values)"""
    import json
    e = json.loads(text)
    out = set()
    for k, v in (e.get("labels") or e.get("capacities") or {}).items():
        if isinstance(v, list):
            out.add("entry:list-valued")
            if v != sorted(v):
                out.add("entry:list-not-in-sorted-order")
            if len(set(v)) != len(v):
                out.add("entry:list-with-repeats")
            if len(v) < 2:
                out.add("entry:list-of-%d" % len(v))
        if v == "" or v == [] or v == 0:
            out.add("entry:falsy-value")
    return out


def entry(rng, t, kind="single", pool=None):
    """t: 'l' | 'c'; kind: single | def | ref"""
    if kind == "ref":
        return cj({"pool": pool})
    det = rng.choice(_LAB if t == "l" else _CAP)
    return cj({"pool_id": "_" if kind == "single" else pool, ("labels" if t == "l" else "capacities"): det})


class _B:
    def __init__(self, rng, ids):
        self.rng, self.ids = rng, ids
        self.nodes, self.edges, self.by = [], [], {}
        self.hist = {}

    def count(self, k):
        self.hist[k] = self.hist.get(k, 0) + 1

    def node(self, i, cls, stitch=False):
        ps = [["Name", i]]
        if stitch:
            ps.append(["StitchNode", "true"])
        elif self.rng.random() < 0.04:
            ps.append(["StitchNode", "false"])
        n = [i, cls, ps, None, None]
        self.nodes.append(n)
        self.by[i] = n
        return i

    def edge(self, a, rel, b):
        self.edges.append([a, b, rel, []])

    def who(self, home):
        """delegation ids an element goes to"""
        rng, ids = self.rng, self.ids
        r = rng.random()
        if r < 0.6:
            return [home]
        if r < 0.72:
            others = [x for x in ids if x != home]
            if others:
                self.count("deleg:other-id")
                return [rng.choice(others)]
            return [home]
        if r < 0.85:
            self.count("deleg:nobody")
            return []
        if len(ids) > 1:
            self.count("deleg:shared")
            return rng.sample(ids, rng.randint(2, min(3, len(ids))))
        return [home]

    def delegate(self, i, home, p_any=0.9):
        """single-element delegations on node i"""
        rng = self.rng
        if rng.random() > p_any:
            return
        who = self.who(home)
        r = rng.random()
        kinds = "lc" if r < 0.35 else "l" if r < 0.65 else "c"
        self.count("deleg:" + {"lc": "both", "l": "label-only", "c": "capacity-only"}[kinds])
        n = self.by[i]
        for t in kinds:
            if who:
                n[3 if t == "l" else 4] = [[w, entry(rng, t)] for w in who]
        for k in (3, 4):
            if n[k] is None:
                r = rng.random()
                if r < 0.04:
                    n[k] = False
                    self.count("deleg:None-marker")
                elif r < 0.07:
                    n[k] = []
                    self.count("deleg:empty-object")

    def pool(self, ports, home, name):
        """definition on the first port, references on the others (sometimes for another id than the definition's)"""
        rng = self.rng
        t = rng.choice("lc")
        k = 3 if t == "l" else 4
        self.count("deleg:pool")
        for j, p in enumerate(ports):
            d = home
            if j and len(self.ids) > 1 and rng.random() < 0.2:
                d = rng.choice([x for x in self.ids if x != home])
                self.count("deleg:pool-ref-other-id")
            e = [d, entry(rng, t, "def" if j == 0 else "ref", name)]
            cur = self.by[p][k]
            if isinstance(cur, list):
                self.by[p][k] = [x for x in cur if x[0] != d] + [e]
            else:
                self.by[p][k] = [e]


def synth_case(rng, big=False, tiny=False):
    """-> (wire graph, histogram of the features it has). tiny: one switch and at most one worker-with-one-NIC or two
    facilities (5-12 nodes, a partition costs ~10 ms); default 10-20 nodes; big up to ~40."""
    k = rng.choice([1, 2, 2, 2, 3, 3, 4])
    ids = IDS[:k]
    b = _B(rng, ids)
    b.count("ids:%d" % k)
    nsw = 1 if tiny else 2 if rng.random() < (0.4 if big else 0.2) else 1
    tiny_fac = tiny and rng.random() < 0.45
    lidx = [0]
    uplinks = []

    def link(a, c):
        lidx[0] += 1
        lk = b.node("l%d" % lidx[0], LINK)
        b.edge(a, "connects", lk)
        b.edge(lk, "connects", c)
        if rng.random() < 0.04:
            b.delegate(lk, rng.choice(ids))
            b.count("deleg:on-link")
        return lk

    for si in range(nsw):
        pre = "s%d" % si
        home_sw = rng.choice(ids)
        st = rng.random() < 0.35
        sw = b.node(pre + "sw", NN, stitch=st)
        ns = b.node(pre + "ns", NS, stitch=st and rng.random() < 0.8)
        b.edge(sw, "has", ns)
        if not st or rng.random() < 0.2:
            b.delegate(sw, home_sw, 0.7)
            b.delegate(ns, home_sw, 0.4)
        if st:
            b.count("stitch:switch")
        pidx = [0]
        swports = []

        def swport():
            pidx[0] += 1
            pst = st and rng.random() < 0.6
            p = b.node("%sp%d" % (pre, pidx[0]), CP, stitch=pst)
            b.edge(ns, "connects", p)
            if pst:
                b.count("stitch:port")
            if not pst or rng.random() < 0.15:
                b.delegate(p, home_sw, 0.85)
            swports.append(p)
            return p

        for wi in range(0 if tiny_fac else 1 if tiny else rng.randint(0, 3 if big else 2)):
            home = rng.choice(ids)
            w = b.node("%sw%d" % (pre, wi), NN)
            b.delegate(w, home)
            if rng.random() < (0.1 if tiny else 0.3):
                gpu = b.node("%sw%dg" % (pre, wi), COMP)
                b.edge(w, "has", gpu)
                b.delegate(gpu, home)
            for ni in range(rng.randint(0, 2) if wi else 1):
                nic = b.node("%sw%dn%d" % (pre, wi, ni), COMP)
                sf = b.node("%sw%dn%df" % (pre, wi, ni), NS)
                b.edge(w, "has", nic)
                b.edge(nic, "has", sf)
                b.delegate(nic, home)
                ports = []
                for pi in range(rng.choice([1, 1, 2]) if tiny else rng.randint(1, 2)):
                    p = b.node("%sw%dn%dp%d" % (pre, wi, ni, pi), CP)
                    b.edge(sf, "connects", p)
                    b.delegate(p, home, 0.8)
                    ports.append(p)
                    r = rng.random()
                    if r < 0.75:
                        link(p, swport())
                    elif r < 0.85 and swports:
                        link(p, rng.choice(swports))        # a switch port with several links
                        b.count("shape:multi-link-port")
                if len(ports) > 1 and rng.random() < 0.35:
                    b.pool(ports, home, "pool-%s" % sf)
        nfac = rng.choice([0, 0, 1, 2, 3]) if big else rng.choice([1, 2, 2, 3]) if tiny_fac else 0 if tiny else rng.choice([0, 0, 0, 1, 2])
        facing = swport() if nfac else None
        for fi in range(nfac):
            home = rng.choice(ids)
            fac = b.node("%sf%d" % (pre, fi), NN)
            fns = b.node("%sf%ds" % (pre, fi), NS)
            fint = b.node("%sf%di" % (pre, fi), CP)
            b.edge(fac, "has", fns)
            b.edge(fns, "connects", fint)
            b.delegate(fac, home)
            b.delegate(fint, home, 0.8)
            if rng.random() < 0.7:
                link(fint, facing)
                if fi:
                    b.count("shape:multi-link-port")
            else:
                link(fint, swport())
        if len(swports) > 1 and rng.random() < 0.3:
            b.pool(rng.sample(swports, rng.randint(2, min(3, len(swports)))), home_sw, "pool-%s" % ns)
        for _ in range(rng.choice([0, 0, 0, 1] if tiny else [0, 0, 1])):
            swport()
        if nsw > 1:
            uplinks.append([swport() for _ in range(rng.randint(1, 2))])
    if nsw > 1:
        for a, c in zip(uplinks[0], uplinks[1]):
            link(a, c)
    # links whose two ends are delegated differently
    ends = {}
    for a, c, r, _ in b.edges:
        for x, y in ((a, c), (c, a)):
            if b.by[x][1] == LINK and b.by[y][1] == CP:
                ends.setdefault(x, []).append(y)

    def owners(i):
        n = b.by[i]
        return frozenset(e[0] for v in (n[3], n[4]) if v for e in v)
    if any(len({owners(p) for p in ps}) > 1 for ps in ends.values()):
        b.count("shape:link-ends-delegated-differently")
    if any(not owners(p) for ps in ends.values() for p in ps):
        b.count("shape:link-end-delegated-to-nobody")
    for f in sorted({f for n in b.nodes for v in (n[3], n[4]) if v for e in v for f in entry_features(e[1])}):
        b.count(f)
    b.count("nodes:%s" % ("<=8" if len(b.nodes) <= 8 else "9-16" if len(b.nodes) <= 16 else "17-30" if len(b.nodes) <= 30 else ">30"))
    return {"nodes": b.nodes, "edges": b.edges}, b.hist


def synth_history(rng, wire, rounds=2):
    """raw ops (see c13.apply_ops) changing the model between partitions: patch two free ports, add a delegated element, delete a node,
    move a delegation"""
    ids = sorted({e[0] for n in wire["nodes"] for v in (n[3], n[4]) if v for e in v}) or ["d1"]
    nodes = {n[0]: n for n in wire["nodes"]}
    cls = {i: n[1] for i, n in nodes.items()}
    linked = set()
    for a, c, r, _ in wire["edges"]:
        if cls[a] == LINK:
            linked.add(c)
        if cls[c] == LINK:
            linked.add(a)
    free = [i for i in nodes if cls[i] == CP and i not in linked]
    alive = set(nodes)
    out = []
    for k in range(rounds):
        r = rng.random()
        ops = []
        if r < 0.4 and len(free) >= 2:
            a, c = free.pop(0), free.pop(0)
            lk = "hl%d" % k
            ops = [["add_node", lk, LINK, [["Name", lk]], None, None], ["add_link", a, "connects", lk], ["add_link", lk, "connects", c]]
            alive.add(lk)
        elif r < 0.6:
            svc = sorted(i for i in alive if cls.get(i) == NS)
            p = "hp%d" % k
            ops = [["add_node", p, CP, [["Name", p]], [[rng.choice(ids), entry(rng, "l")]], None]]
            if svc:
                ops.append(["add_link", rng.choice(svc), "connects", p])
            alive.add(p)
            cls[p] = CP
            free.append(p)
        elif r < 0.8:
            cand = sorted(i for i in alive if i in nodes)
            if cand:
                v = rng.choice(cand)
                ops = [["del_node", v]]
                alive.discard(v)
                free = [x for x in free if x != v]
        else:
            cand = sorted(i for i in alive if i in nodes and cls[i] != LINK)
            if cand:
                v = rng.choice(cand)
                ops = [["set_del", v, rng.choice(["LabelDelegations", "CapacityDelegations"]), None if rng.random() < 0.3 else
                        [[rng.choice(ids), cj({"pool": "moved%d" % k})]]]]
        out.append(ops)
    return out
