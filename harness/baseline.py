"""Run /repo's pinned suite (guard off) and compare with /root/.vp/BASELINE.json stable_pass."""
import json, os, subprocess, sys, tempfile, xml.etree.ElementTree as ET
base = json.load(open("/root/.vp/BASELINE.json"))
out = tempfile.mktemp(suffix=".xml", prefix="fimbase_")
repo = sys.argv[1] if len(sys.argv) > 1 else "/repo"
env = dict(os.environ); env.pop("FIM_VERIF", None); env["PYTHONPATH"] = repo
subprocess.run(["/venv/bin/python", "-m", "pytest", "-q", "-p", "no:cacheprovider", "--timeout=900",
                "--continue-on-collection-errors", "--junitxml=" + out], cwd=repo, env=env,
               stdout=subprocess.DEVNULL, stderr=subprocess.DEVNULL)
passed = set()
for tc in ET.parse(out).getroot().iter("testcase"):
    if not any(c.tag in ("failure", "error", "skipped") for c in tc):
        passed.add("%s::%s" % (tc.get("classname"), tc.get("name")))
os.unlink(out)
missing = [t for t in base["stable_pass"] if t not in passed]
print("pinned %d, passing %d, missing %d" % (len(base["stable_pass"]), len(base["stable_pass"]) - len(missing), len(missing)))
for t in missing:
    print("  NOT PASSING:", t)
sys.exit(1 if missing else 0)
