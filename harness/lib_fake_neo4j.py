"""Recording stand-in for the neo4j driver (C19).

There is no Neo4j server offline: everything stops at the driver boundary.  The importer is built
with `object.__new__(Neo4jGraphImporter)` (its __init__ would connect), gets `.driver = FakeDriver()`
and a logger; `Neo4jPropertyGraph(graph_id=..., importer=imp)` and its subclasses then run unchanged
and every statement they hand to `session.run` is recorded as (text, params) in `driver.log`.

The canned results are only there to let each operation run to its end (so that *all* of its
statements are issued); nothing is concluded from them.

Caller-controlled result sets: `canned` may be a callable (text, params) -> canned dict (it can find out which backend
frame called run() from `driver.where[-1]`); a canned dict with the key "records" (a list of dicts, one per record, in
column order) is answered with exactly those records (ScriptedResult: an empty list is an empty result for every
accessor), so that a harness decides which follow-up statements an operation gets to issue and which VALUES flow from
the results into them.  `{"empty": True}` keeps the permissive record shape but answers every accessor with nothing;
"any" is the list handed out for a column the canned dict does not name.
"""
import logging
import sys


class _CannedDict(dict):
    """record.data(): any key the backend asks for exists and has a plausible value."""

    def __init__(self, canned):
        super().__init__()
        self._canned = canned
        # len(val.data()) must be > 0
        dict.__setitem__(self, "nodeids", list(canned.get("nodeids", ["n1"])))

    def __missing__(self, key):
        c = self._canned
        if key == "labels(n)":
            return ["GraphNode"] + list(c.get("labels", ["NetworkNode"]))
        if key == "properties(n)":
            return dict(c.get("node_props", {"Name": "x", "Class": "NetworkNode", "Type": "Server"}))
        if key == "properties(r)":
            return dict(c.get("link_props", {"Class": "has"}))
        if key == "type(r)":
            return c.get("link_type", "has")
        if key == "data":
            return c.get("graphml", "None")
        return list(c.get(key, c.get("any", ["n1"])))

    def get(self, key, default=None):
        return self[key]


class FakeRecord:
    def __init__(self, canned):
        self._c = canned

    def data(self):
        return _CannedDict(self._c)

    def value(self):
        return list(self._c.get("value", ["siteA"]))

    def values(self):
        return [list(self._c.get("value", ["siteA"]))]

    def get(self, key, default=None):
        return _CannedDict(self._c)[key]

    def __getitem__(self, key):
        return _CannedDict(self._c)[key]


class FakeResult:
    def __init__(self, canned):
        self._c = canned

    def single(self):
        return None if self._c.get("empty") else FakeRecord(self._c)

    def peek(self):
        return None if self._c.get("empty") else FakeRecord(self._c)

    def value(self):
        return [] if self._c.get("empty") else list(self._c.get("value", ["siteA"]))

    def values(self):
        return [] if self._c.get("empty") else [["a", "b"]]

    def data(self):
        return [_CannedDict(self._c)]

    def __iter__(self):
        return iter([] if self._c.get("empty") else [FakeRecord(self._c)])


class ScriptedRecord:
    """one record with exactly the columns the harness scripted (dict order = column order)"""

    def __init__(self, d):
        self._d = dict(d)

    def data(self):
        return dict(self._d)

    def value(self, key=0, default=None):
        if isinstance(key, int):
            vs = list(self._d.values())
            return vs[key] if -len(vs) <= key < len(vs) else default
        return self._d.get(key, default)

    def values(self):
        return list(self._d.values())

    def keys(self):
        return list(self._d)

    def items(self):
        return list(self._d.items())

    def get(self, key, default=None):
        return self._d.get(key, default)

    def __getitem__(self, key):
        return self.value(key) if isinstance(key, int) else self._d[key]

    def __len__(self):
        return len(self._d)

    def __iter__(self):
        return iter(self._d.values())


class ScriptedResult:
    """a result made of exactly the scripted records"""

    def __init__(self, records):
        self._r = [ScriptedRecord(r) for r in records]

    def single(self):
        return self._r[0] if self._r else None

    def peek(self):
        return self._r[0] if self._r else None

    def value(self, key=0, default=None):
        return [r.value(key, default) for r in self._r]

    def values(self):
        return [r.values() for r in self._r]

    def data(self):
        return [r.data() for r in self._r]

    def __iter__(self):
        return iter(self._r)


class FakeSession:
    def __init__(self, driver):
        self.d = driver

    def __enter__(self):
        return self

    def __exit__(self, *a):
        return False

    def run(self, text, parameters=None, **kw):
        params = dict(parameters or {})
        params.update(kw)
        fr = sys._getframe(1)
        self.d.log.append((text, params))
        self.d.where.append((fr.f_code.co_filename, fr.f_lineno, fr.f_code.co_qualname))
        canned = self.d.canned
        if callable(canned):
            canned = canned(text, params)
        if isinstance(canned, dict) and "records" in canned:
            return ScriptedResult(canned["records"])
        if isinstance(canned, dict) and canned.get("empty"):
            return ScriptedResult([])
        return FakeResult(canned)

    # transaction style, should the backend ever move to it
    def begin_transaction(self):
        return self

    def commit(self):
        pass

    def close(self):
        pass


class FakeDriver:
    def __init__(self, canned=None):
        self.log = []
        self.where = []      # (file, line, function) of the backend frame that called run(), parallel to log
        self.canned = canned or {}

    def session(self, **kw):
        return FakeSession(self)

    def close(self):
        pass

    def verify_connectivity(self):
        pass

    def take(self):
        out, self.log = self.log, []
        self.last_where, self.where = self.where, []
        return out


def make_importer(canned=None, import_dir="/tmp"):
    from fim.graph.neo4j_property_graph import Neo4jGraphImporter
    imp = object.__new__(Neo4jGraphImporter)
    imp.driver = FakeDriver(canned)
    lg = logging.getLogger("c19.fake")
    lg.addHandler(logging.NullHandler())
    lg.propagate = False
    lg.setLevel(logging.CRITICAL)
    imp.log = lg
    imp.url = imp.user = imp.pswd = None
    imp.import_host_dir = import_dir
    imp.import_dir = import_dir
    return imp
