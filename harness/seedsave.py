"""seedsave.py <Cxx> ... : copy confirmed seeded changes /tmp/seed/out-<Cxx>/<i> into /verif/seeded/<Cxx>-<i>/ and record what was run."""
import json, os, re, shutil, sys
ROUND = os.environ.get("SEED_ROUND", "")          # "" -> /tmp/seed/out-<Cxx>/<i> -> seeded/<Cxx>-<i>;  "2" -> out2-<Cxx>/<i> -> seeded/<Cxx>-r2-<i>
for prop in sys.argv[1:]:
    base = "/tmp/seed/out%s-%s" % (ROUND, prop)
    for i in sorted(os.listdir(base)):
        src = os.path.join(base, i)
        res = "/tmp/seed/results/out%s-%s_%s.txt" % (ROUND, prop, i)
        if not os.path.isfile(os.path.join(src, "patch.diff")) or not os.path.isfile(res):
            continue
        txt = open(res).read()
        ok_clean = "demo on clean tree: rc=0" in txt
        m = re.search(r"demo on changed tree: rc=(\d+)", txt)
        ok_changed = bool(m) and m.group(1) != "0"
        ok_tests = "missing 0" in txt
        checks = {}
        for mm in re.finditer(r"check (C\d+) on changed tree: rc=(\d+) \| (\d+) VIOLATION", txt):
            checks[mm.group(1)] = {"exit": int(mm.group(2)), "violation_lines": int(mm.group(3))}
        replays = re.findall(r"replay: (\w+) (\S+) \| (.*)", txt)
        dst = "/verif/seeded/%s-%s%s" % (prop, ("r%s-" % ROUND) if ROUND else "", i)
        os.makedirs(dst, exist_ok=True)
        for fn in ("patch.diff", "demo.py"):
            shutil.copy(os.path.join(src, fn), os.path.join(dst, fn))
        meta = json.load(open(os.path.join(src, "meta.json")))
        meta["confirmed"] = {"demo_passes_on_unchanged_tree": ok_clean, "demo_fails_with_change": ok_changed,
                             "pinned_77_tests_pass_with_change": ok_tests}
        meta["what_ran"] = ("harness/seedrun.sh: scratch worktree of /repo HEAD + patch; demo.py on clean and changed tree; pinned suite "
                            "(harness/baseline.py) on the changed tree; ./check %s (quick, seed 0) of the committed machinery against the changed tree" % prop)
        old = {}
        if os.path.exists(os.path.join(dst, "meta.json")):
            old = json.load(open(os.path.join(dst, "meta.json")))
        hist = old.get("check_history", [])
        hist.append({"verif_commit": os.popen("git -C /verif rev-parse --short HEAD").read().strip(), "checks": checks,
                     "first_replays": [{"kind": k, "signature": s, "what": w[:160]} for k, s, w in replays[:3]]})
        meta["check_history"] = hist
        meta["detected"] = any(c["exit"] == 1 for c in checks.values())
        json.dump(meta, open(os.path.join(dst, "meta.json"), "w"), indent=1)
        print(dst, "confirmed" if (ok_clean and ok_changed and ok_tests) else "NOT CONFIRMED", "detected" if meta["detected"] else "MISSED")
