"""Deterministic line-level scheduling of real threads through the two graph stores (C20).

* `ILock` replaces `storage.storage_instance.lock`: same observable behaviour as threading.Lock
  (release by any thread, RuntimeError on releasing a free lock) but it records every event, never blocks
  the interpreter (a busy acquire yields to the scheduler) and reports a self-deadlock instead of hanging.
* `Recorder` installs a trace function that fires on every source line of the store classes (class ranges come
  from gen/lockcfg.layout, which does not interpret statements) and (when a `Sched` is attached) hands control
  back to the scheduler before the line runs.
* The micro-instructions a line performs are *observed*, not looked up: the store's shared state is replaced by
  probed objects (`probe_store`) - data descriptors for `graphs` / `start_id` / `graph_node_ids` on a subclass of the
  store class, dict subclasses for the node dictionaries of the graphs, for the per-graph store's `graphs` and for its
  counters - that report every primitive access (counter read/write, node insert/delete/clear, entry replaced, any
  read).  The accesses of one source line are folded into the vocabulary of the Lean model (`Recorder.fold`).  Nothing
  here depends on the text of the store methods, so it works the same on source the translator does not recognise;
  on source it does recognise, "the observed trace is a path of the generated skeleton" tests the translator's
  ACCESS table against behaviour.
* `Sched` runs N worker threads one line at a time following a decision procedure (explicit prefix, then
  non-preemptive default); `explore` enumerates schedules up to a preemption bound.

Not controlled: preemption inside one source line (the probes see every primitive access, the scheduler switches threads
only between lines of the store classes).
"""
import logging
import os
import sys
import threading

import networkx as nx
from collections import defaultdict

from core import REPO, err_kind



class SelfDeadlock(Exception):
    pass


class Aborted(BaseException):
    """raised inside a worker to unwind it when a run is abandoned (the store object was replaced)"""


class ILock:
    def __init__(self, rec):
        self.rec = rec
        self.held = False
        self.owner = None
        self.n_acq = 0
        self.n_rel = 0
        self.rel_err = False
        self.deadlock = False

    def acquire(self, blocking=True, timeout=-1):
        me = self.rec.current()
        self.rec.flush(me)
        sched = self.rec.sched
        while self.held:
            if sched is None or self.owner == me:
                # nobody else can ever release it: the call would hang forever
                self.deadlock = True
                raise SelfDeadlock("acquire of a lock that will never be released (held by %r)" % (self.owner,))
            sched.yield_blocked(me)
        self.held = True
        self.owner = me
        self.n_acq += 1
        self.rec.event(me, "acq")
        return True

    def release(self):
        me = self.rec.current()
        self.rec.flush(me)
        self.rec.event(me, "rel")
        if not self.held:
            self.rel_err = True
            raise RuntimeError("release unlocked lock")
        self.held = False
        self.owner = None
        self.n_rel += 1

    def locked(self):
        return self.held

    def __enter__(self):
        self.acquire()

    def __exit__(self, *a):
        self.release()


def space_of(key):
    """graph index of a store key 'graph-<n>' (0 = not one of the harness's graphs)"""
    if isinstance(key, str) and key.startswith("graph-") and key[6:].isdigit():
        return int(key[6:])
    return 0


class Recorder:
    """Line tracer for the store classes + sink of the probes' observations.

    Observations (one per primitive access, each a single dict / attribute operation of CPython):
      ("T",)                      some read of the shared graph structure
      ("R", c, value)             counter c read        ("W", c, old, new)   counter c written
      ("NI", space, id, dict)     node inserted         ("ND", space, id, owner, dict)   node deleted
      ("NC", space)               node dict of a graph cleared
      ("ES", space, ids, owner)   per-graph store: entry replaced by a graph holding `ids`
      ("DC",)                     per-graph store: dict of graphs cleared
      ("unk", what)               an access the vocabulary has no word for
    """

    def __init__(self, layout, sched=None):
        self.sched = sched
        self.files = {}
        for fl, rg in layout["ranges"].items():
            path = os.path.realpath(os.path.join(REPO, rg["file"]))
            self.files[path] = (fl, rg["first"], rg["last"], None,
                                {n: tuple(r) for n, r in rg["methods"].items()}, tuple(rg.get("shell", (rg["first"], rg["last"]))))
        self.events = []          # (thread, concrete micro)
        self.pending = {}         # thread -> observations of the line being executed
        self.regs = {}            # thread -> {counter: value read in the current store call}
        self.ctx = {}             # thread -> (g, k)
        self.tls = threading.local()
        self._fncache = {}
        self.calls = []
        self.depth = {}
        self.cur_op = {}
        self.lock = None
        self.flavour = None
        self.lines = set()        # (file, line) of every traced source line executed (coverage of logger-conditioned branches)

    def current(self):
        return getattr(self.tls, "tid", 0)

    def on(self):
        return getattr(self.tls, "on", False)

    def set_ctx(self, g, k, op=None):
        self.ctx[self.current()] = (g, k)
        self.cur_op[self.current()] = op

    def event(self, tid, micro):
        self.events.append((tid, [micro] if isinstance(micro, str) else micro))

    # ---- observations
    def obs(self, *o):
        if self.on():
            self.pending.setdefault(self.current(), []).append(o)

    def atom(self):
        """called by a probe before a primitive read/write of a counter or write of a node dictionary: when the calling thread
        does not hold the store's lock the access is a step of its own - what the thread did so far is emitted, and the scheduler
        may run other threads before the access (an unlocked `x += 1` is a load and a store with a switch in between)"""
        if self.sched is None or not self.on():
            return
        tid = self.current()
        lk = self.lock
        if lk is not None and lk.held and lk.owner == tid:
            return
        self.flush(tid)
        self.sched.yield_point(tid)

    def flush(self, tid):
        group = self.pending.get(tid)
        if group:
            self.pending[tid] = []
            for m in self.fold(tid, group):
                self.events.append((tid, m))

    def fold(self, tid, group):
        """observations of one source line -> micro-instructions of the Lean model"""
        ws = [o for o in group if o[0] != "T"]
        if not ws:
            return [["rdg"]]
        regs = self.regs.setdefault(tid, {})
        shared = self.flavour == "shared"
        out = []
        i = 0
        while i < len(ws):
            o = ws[i]
            k = o[0]
            if k == "R":
                c = o[1]
                j = i + 1
                while j < len(ws) and ws[j][0] == "R" and ws[j][1] == c:
                    j += 1
                if j < len(ws) and ws[j][0] == "W" and ws[j][1] == c and ws[j][2] == o[2] and ws[j][3] >= ws[j][2]:
                    out.append(["bump", c, ws[j][3] - ws[j][2]])          # read-modify-write within one line
                    i = j + 1
                    continue
                regs[c] = o[2]
                out.append(["read", c])
                i += 1
            elif k == "W":
                c, old, new = o[1], o[2], o[3]
                if c in regs and isinstance(new, int) and new >= regs[c]:
                    out.append(["bumpReg", c, new - regs[c]])
                elif isinstance(new, int) and new >= 0:
                    out.append(["setCtr", c, new])
                else:
                    out.append(["unk", "counter set to %r" % (new,)])
                i += 1
            elif k == "NI":
                sp, d = o[1], o[3]
                ids = []
                while i < len(ws) and ws[i][0] == "NI" and ws[i][1] == sp and ws[i][3] is d:
                    ids.append(ws[i][2])
                    i += 1
                out.extend(self._adds(sp, ids, d, regs))
            elif k == "ND":
                sp, d = o[1], o[4]
                owners = set()
                while i < len(ws) and ws[i][0] == "ND" and ws[i][1] == sp and ws[i][4] is d:
                    owners.add(ws[i][3])
                    i += 1
                left = {space_of(a.get("GraphID")) for a in dict.values(d)}
                if len(owners) == 1 and not (owners & left):
                    out.append(["del", next(iter(owners))])
                else:
                    out.append(["unk", "partial delete of graphs %s" % sorted(owners)])
            elif k == "NC":
                out.append(["delAll"] if shared else ["delSpace", o[1]])
                i += 1
            elif k == "ES":
                out.append(["delSpace", o[1]])
                out.extend(self._adds(o[1], o[2], o[3], {}))
                i += 1
            elif k == "DC":
                out.append(["delAll"])
                i += 1
            else:
                out.append(["unk", str(o[1:])])
                i += 1
        return out

    def _adds(self, sp, ids, d, regs):
        """insertions into id space `sp` -> add (ids taken from the counter value this thread read) / addFrom"""
        out = []
        if not all(isinstance(x, int) and x >= 0 for x in ids):
            return [["unk", "non-integer internal id"]]
        ids = sorted(ids)
        runs = []
        for x in ids:
            if runs and x == runs[-1][0] + runs[-1][1]:
                runs[-1][1] += 1
            else:
                runs.append([x, 1])
        for lo, k in runs:
            owners = {space_of(dict.get(d, x, {}).get("GraphID")) for x in range(lo, lo + k)} if isinstance(d, dict) else {d}
            g = next(iter(owners)) if len(owners) == 1 else None
            if g is None:
                out.append(["unk", "one insertion for several graphs"])
            elif regs.get(sp) == lo:
                out.append(["add", sp, g, k])
            else:
                out.append(["addFrom", sp, g, lo, k])
        return out

    # ---- tracing
    def _file(self, code):
        fn = code.co_filename
        r = self._fncache.get(fn)
        if r is None:
            r = self._fncache[fn] = self.files.get(os.path.realpath(fn), False)
        return r

    def global_trace(self, frame, event, arg):
        if event != "call":
            return None
        f = self._file(frame.f_code)
        if not f:
            return None
        ln = frame.f_code.co_firstlineno
        if not (f[5][0] <= ln <= f[5][1]):
            return None                      # outside the shell class (which contains the store class)
        inner = f[1] <= ln <= f[2]
        if frame.f_code.co_name == "<lambda>" or (inner and frame.f_code.co_name == "__init__"):
            return None
        return self.local_trace

    def local_trace(self, frame, event, arg):
        if event == "line":
            tid = self.current()
            self.lines.add((frame.f_code.co_filename, frame.f_lineno))
            self.flush(tid)                  # the previous line of this thread is complete
            if self.sched is not None:
                self.sched.yield_point(tid)
        return self.local_trace

    def start(self, tid=0):
        self.tls.tid = tid
        self.tls.on = True
        sys.settrace(self.global_trace)

    def stop(self):
        sys.settrace(None)
        self.flush(self.current())
        self.tls.on = False


# --------------------------------------------------------------------------------------------
# probes: the store's shared state reports every primitive access

class ObsNodeDict(dict):
    """`Graph._node` of a graph held by a store: internal id -> attribute dict"""

    def bind(self, rec, space):
        self.rec, self.space = rec, space
        return self

    def __setitem__(self, k, v):
        self.rec.atom()
        new = not dict.__contains__(self, k)
        dict.__setitem__(self, k, v)
        if new:
            self.rec.obs("NI", self.space, k, self)
        else:
            self.rec.obs("unk", "node %r replaced" % (k,))

    def __delitem__(self, k):
        self.rec.atom()
        owner = space_of(dict.get(self, k, {}).get("GraphID"))
        dict.__delitem__(self, k)
        self.rec.obs("ND", self.space, k, owner, self)

    def clear(self):
        self.rec.atom()
        dict.clear(self)
        self.rec.obs("NC", self.space)

    def _w(name):
        def f(self, *a, **kw):
            self.rec.obs("unk", "node dict %s" % name)
            return getattr(dict, name)(self, *a, **kw)
        return f

    def _r(name):
        def f(self, *a, **kw):
            self.rec.obs("T")
            return getattr(dict, name)(self, *a, **kw)
        return f
    update, pop, popitem, setdefault = _w("update"), _w("pop"), _w("popitem"), _w("setdefault")
    __getitem__, __contains__, __len__ = _r("__getitem__"), _r("__contains__"), _r("__len__")
    get, keys, values, copy = _r("get"), _r("keys"), _r("values"), _r("copy")
    del _w, _r

    # A scan of the node dictionary by a thread that does not hold the store's lock is a sequence of steps: the scheduler
    # may run other threads between two elements (under the GIL a thread switch can happen between any two bytecodes of
    # the Python-level filter / generator that consumes the iterator).  A scan under the lock is left alone.
    def __iter__(self):
        self.rec.obs("T")
        w = self._unlocked()
        return dict.__iter__(self) if w is None else _YieldIter(dict.__iter__(self), *w)

    def items(self):
        self.rec.obs("T")
        w = self._unlocked()
        return dict.items(self) if w is None else _YieldIter(iter(dict.items(self)), *w)

    def _unlocked(self):
        """(scheduler, thread) when the calling thread is scheduled and does not hold the store's lock"""
        rec = self.rec
        if rec.sched is None or not rec.on():
            return None
        tid = rec.current()
        lk = rec.lock
        if lk is not None and lk.held and lk.owner == tid:
            return None
        return rec.sched, tid


class _YieldIter:
    def __init__(self, it, sched, tid):
        self.it, self.sched, self.tid = it, sched, tid

    def __iter__(self):
        return self

    def __next__(self):
        self.sched.yield_point(self.tid)
        return next(self.it)


def probe_graph(G, rec, space):
    if not isinstance(G._node, ObsNodeDict):
        d = ObsNodeDict(G._node)
        G._node = d.bind(rec, space)          # (networkx resets its cached node views when _node is assigned)
    else:
        G._node.bind(rec, space)
    return G


class ObsGraphs(defaultdict):
    """per-graph store: graph id -> Graph"""

    def bind(self, rec):
        self.rec = rec
        return self

    def __missing__(self, k):
        G = probe_graph(nx.Graph(), self.rec, space_of(k))
        dict.__setitem__(self, k, G)          # an empty entry: no node appears or disappears
        return G

    def __getitem__(self, k):
        self.rec.obs("T")
        return defaultdict.__getitem__(self, k)

    def __setitem__(self, k, v):
        self.rec.atom()
        sp = space_of(k)
        if isinstance(v, nx.Graph):
            ids = list(dict.keys(v._node))
            probe_graph(v, self.rec, sp)
            dict.__setitem__(self, k, v)
            self.rec.obs("ES", sp, ids, v._node)
        else:
            dict.__setitem__(self, k, v)
            self.rec.obs("unk", "entry set to a %s" % type(v).__name__)

    def clear(self):
        self.rec.atom()
        dict.clear(self)
        self.rec.obs("DC")

    def _w(name):
        def f(self, *a, **kw):
            self.rec.obs("unk", "graphs dict %s" % name)
            return getattr(defaultdict, name)(self, *a, **kw)
        return f

    def _r(name):
        def f(self, *a, **kw):
            self.rec.obs("T")
            return getattr(defaultdict, name)(self, *a, **kw)
        return f
    __delitem__, update, pop, popitem, setdefault = _w("__delitem__"), _w("update"), _w("pop"), _w("popitem"), _w("setdefault")
    __contains__, __iter__, __len__ = _r("__contains__"), _r("__iter__"), _r("__len__")
    get, keys, values, items, copy = _r("get"), _r("keys"), _r("values"), _r("items"), _r("copy")
    del _w, _r


class ObsCtr(defaultdict):
    """per-graph store: graph id -> next internal id"""

    def bind(self, rec):
        self.rec = rec
        self.quiet = False
        return self

    def __getitem__(self, k):
        self.rec.atom()
        self.quiet = True
        try:
            v = defaultdict.__getitem__(self, k)       # (a missing key is filled in by the factory: not a write of the program)
        finally:
            self.quiet = False
        self.rec.obs("R", space_of(k), v)
        return v

    def __setitem__(self, k, v):
        if self.quiet:
            return dict.__setitem__(self, k, v)
        self.rec.atom()
        old = dict.get(self, k)
        if old is None:
            old = self.default_factory() if self.default_factory else None
        dict.__setitem__(self, k, v)
        self.rec.obs("W", space_of(k), old, v)

    def _w(name):
        def f(self, *a, **kw):
            self.rec.obs("unk", "counter dict %s" % name)
            return getattr(defaultdict, name)(self, *a, **kw)
        return f
    __delitem__, update, pop, popitem, setdefault, clear = (_w("__delitem__"), _w("update"), _w("pop"), _w("popitem"),
                                                             _w("setdefault"), _w("clear"))
    del _w


class _Attr:
    """data descriptor on the probed subclass of a store class; the value stays in the instance dict"""

    def __init__(self, name, kind):
        self.name, self.kind = name, kind

    def __get__(self, obj, cls=None):
        if obj is None:
            return self
        try:
            v = obj.__dict__[self.name]
        except KeyError:
            raise AttributeError(self.name)
        rec = _REC
        if rec is not None:
            if self.kind == "graphs":
                rec.obs("T")
            elif self.kind == "ctr":
                rec.atom()
                v = obj.__dict__[self.name]
                rec.obs("R", 0, v)
        return v

    def __set__(self, obj, v):
        rec = _REC
        if rec is not None and self.kind == "ctr":
            rec.atom()
        old = obj.__dict__.get(self.name)
        if rec is not None:
            if self.kind == "ctr":
                rec.obs("W", 0, old, v)
            elif self.kind == "graphs":
                rec.obs("unk", "the graph container is replaced")
                v = _probe_value(v, rec)
            elif self.kind == "ctrs":
                rec.obs("unk", "the counter table is replaced")
                v = _probe_value(v, rec)
        obj.__dict__[self.name] = v


def _probe_value(v, rec):
    if isinstance(v, nx.Graph):
        return probe_graph(v, rec, 0)
    if isinstance(v, defaultdict) and not isinstance(v, (ObsGraphs, ObsCtr)):
        fac = v.default_factory
        is_ctr = fac is not None and isinstance(fac(), int)
        n = (ObsCtr(fac) if is_ctr else ObsGraphs(nx.Graph)).bind(rec)
        for k, x in v.items():
            dict.__setitem__(n, k, probe_graph(x, rec, space_of(k)) if isinstance(x, nx.Graph) else x)
        return n
    return v


_PROBED = {}


def probe_store(st, rec):
    """replace the shared state of the store object by probed objects (same contents)"""
    base = type(st)
    cls = _PROBED.get(base)
    if cls is None:
        cls = _PROBED[base] = type(base.__name__, (base,), {
            "graphs": _Attr("graphs", "graphs"), "start_id": _Attr("start_id", "ctr"),
            "graph_node_ids": _Attr("graph_node_ids", "ctrs")})
    for name in ("graphs", "graph_node_ids"):
        if name in st.__dict__:
            st.__dict__[name] = _probe_value(st.__dict__[name], rec)
    st.__class__ = cls


# --------------------------------------------------------------------------------------------
# stores and operations

class CountingHandler(logging.Handler):
    """swallows the records and counts them per level"""

    def __init__(self):
        super().__init__(level=logging.DEBUG)
        self.counts = {}

    def emit(self, record):
        self.counts[record.levelname] = self.counts.get(record.levelname, 0) + 1


def store_logger():
    """the logger a store singleton is created with in the `logger` configuration: a real logging.Logger that handles every
    level (so `if self.log is not None:` branches run and the call goes all the way through the logging framework), kept away
    from the root logger and the console"""
    lg = logging.getLogger("fimverif.c20.store")
    lg.setLevel(logging.DEBUG)
    lg.propagate = False
    for h in list(lg.handlers):
        lg.removeHandler(h)
    h = CountingHandler()
    lg.addHandler(h)
    lg.c20_handler = h
    return lg


def fresh_store(flavour, rec, logger=None):
    """a new store singleton of the given flavour, created WITH the given logger (None = the default configuration): the first
    importer of the process decides what `self.log` of the store is for the rest of its life"""
    import fim.graph.networkx_property_graph as pg
    import fim.graph.networkx_property_graph_disjoint as pgd
    pg.NetworkXGraphStorage.storage_instance = None
    pgd.NetworkXGraphStorageDisjoint.storage_instance = None
    imp = pg.NetworkXGraphImporter(logger=logger) if flavour == "shared" else pgd.NetworkXGraphImporterDisjoint(logger=logger)
    if getattr(imp.storage.storage_instance, "log", None) is not logger:
        raise RuntimeError("the store singleton was not created with the requested logger")
    lock = ILock(rec)
    imp.storage.storage_instance.lock = lock
    rec.lock = lock
    rec.flavour = flavour
    rec.store0 = imp.storage.storage_instance
    rec.shell_cls = type(imp.storage)
    rec.importer_cls = type(imp)
    _install_wrappers(type(imp.storage.storage_instance), flavour)
    _wrap_shell(rec.shell_cls)
    global _REC
    _REC = rec
    probe_store(rec.store0, rec)
    return imp, lock


_REC = None


def identity(rec):
    """the singleton protocol: one store object and one lock object for the lifetime of the process"""
    if rec.shell_cls.storage_instance is not rec.store0:
        return "store-object-replaced"
    if rec.store0.lock is not rec.lock:
        return "lock-object-replaced"
    return None


def _install_wrappers(cls, flavour):
    """Record every outermost call of a public store method: (thread, name, first event, last event, outcome,
    lock counters before/after).  The wrappers live in this file, so they are not traced."""
    if getattr(cls, "_c20_wrapped", False):
        return
    for name, fn in list(vars(cls).items()):
        if not callable(fn) or name.startswith("_"):
            continue

        def mk(name, fn):
            def wrapper(self, *a, **kw):
                rec = _REC
                if rec is None or getattr(self, "lock", None) is not rec.lock:
                    return fn(self, *a, **kw)
                tid = rec.current()
                depth = rec.depth.get(tid, 0)
                if depth:
                    return fn(self, *a, **kw)
                rec.depth[tid] = 1
                lk = rec.lock
                rec.flush(tid)                 # what the caller did before the call is not part of the call
                rec.regs[tid] = {}
                start = len(rec.events)
                before = (lk.n_acq, lk.n_rel)
                call = {"tid": tid, "method": "%s.%s" % (rec.flavour, name), "start": start, "outcome": "unfinished",
                        "op": rec.cur_op.get(tid), "ctx": rec.ctx.get(tid, (1, 0))}
                rec.calls.append(call)
                try:
                    r = fn(self, *a, **kw)
                    call["outcome"] = "done"
                    return r
                except SelfDeadlock:
                    call["outcome"] = "deadlock"
                    raise
                except RuntimeError as e:
                    call["outcome"] = "relerr" if "release unlocked lock" in str(e) else "exc"
                    raise
                except BaseException:
                    call["outcome"] = "exc"
                    raise
                finally:
                    rec.flush(tid)
                    rec.depth[tid] = 0
                    call["end"] = len(rec.events)
                    call["acq"] = lk.n_acq - before[0]
                    call["rel"] = lk.n_rel - before[1]
                    call["held_after"] = bool(lk.held and lk.owner == tid)
            wrapper.__name__ = name
            return wrapper
        setattr(cls, name, mk(name, fn))
    cls._c20_wrapped = True


def _wrap_shell(shell):
    """constructing a shell (importer / graph object) = one evaluation of the singleton creation guard"""
    if getattr(shell, "_c20_wrapped", False):
        return
    init = shell.__init__

    def __init__(self, *a, **kw):
        rec = _REC
        before = shell.storage_instance
        init(self, *a, **kw)
        if rec is not None and rec.on() and before is not None:
            tid = rec.current()
            rec.flush(tid)
            rec.event(tid, ["ctor", shell.storage_instance is not before])
    shell.__init__ = __init__
    shell._c20_wrapped = True


def gid(g):
    return "graph-%d" % g


def make_graph(g, k, missing=None, direct=False, salt=""):
    """k nodes; `missing` = index of a node without NodeID (failing import)"""
    G = nx.Graph()
    for i in range(k):
        a = {"Class": "NetworkNode", "Name": "n%d" % i}
        if missing != i:
            a["NodeID"] = "%s-n%d%s" % (gid(g), i, salt)
        if direct:
            a["GraphID"] = gid(g)
        G.add_node("x%d" % i, **a)
    for i in range(k - 1):
        G.add_edge("x%d" % i, "x%d" % (i + 1), Class="connects")
    return G


def run_op(imp, rec, op, uniq):
    """op = [kind, g, k]; returns ["ok", summary] | ["err", kind]"""
    kind, g, k = op
    # (a graph id that is not one of the harness's strings has graph index 0, cf. space_of)
    rec.set_ctx(0 if kind.endswith("_unh") else g, k if kind in ("add_graph", "add_graph_bad", "add_graph_direct") else 1, uniq)
    try:
        # what a client does: a freshly constructed importer per operation (singleton creation guard runs each time);
        # the shell resolves the current store at every call
        imp = rec.importer_cls()
        st = imp.storage
        if kind.endswith("_unh"):
            # a graph id that cannot be a dictionary key: the call may fail, the lock must come back
            bad = ["graph-unhashable"]         # (one id for all such calls: it is graph index 0 of the model, cf. space_of)
            if kind == "get_graph_unh":
                st.get_graph(bad)
            elif kind == "extract_graph_unh":
                st.extract_graph(bad)
            elif kind == "del_graph_unh":
                st.del_graph(bad)
            elif kind == "add_blank_unh":
                st.add_blank_node_to_graph(bad, Class="NetworkNode", NodeID="blank-%s" % uniq)
            else:
                raise ValueError(kind)
            return ["ok", None]
        if kind == "add_graph":
            st.add_graph(gid(g), make_graph(g, k))
            return ["ok", None]
        if kind == "add_graph_bad":
            st.add_graph(gid(g), make_graph(g, k, missing=k - 1))
            return ["ok", None]
        if kind == "add_graph_direct":
            st.add_graph_direct(gid(g), make_graph(g, k, direct=True))
            return ["ok", None]
        if kind == "del_graph":
            st.del_graph(gid(g))
            return ["ok", None]
        if kind == "extract_graph":
            r = st.extract_graph(gid(g))
            return ["ok", None if r is None else len(r.nodes)]
        if kind == "get_graph":
            st.get_graph(gid(g))
            return ["ok", None]
        if kind == "del_all_graphs":
            st.del_all_graphs()
            return ["ok", None]
        if kind == "add_blank":
            return ["ok", st.add_blank_node_to_graph(gid(g), Class="NetworkNode", NodeID="blank-%s" % uniq)]
        if kind == "add_node":
            pgr = imp.graph_class(graph_id=gid(g), importer=imp)
            pgr.add_node(node_id="api-%s" % uniq, label="NetworkNode", props={"Name": "api"})
            return ["ok", None]
        raise ValueError(kind)
    except SelfDeadlock:
        return ["err", "deadlock"]
    except Exception as e:
        return ["err", err_kind(e), str(e)[:80]]


def snapshot(flavour, imp, lock, graphs):
    """canonical final state in the vocabulary of the Lean model; `graphs` = graph indices in play"""
    st = imp.storage.storage_instance      # the store a client sees now
    idx = {gid(g): g for g in graphs}
    nodes = []
    if flavour == "shared":
        ctr = [st.__dict__["start_id"]]
        for n, d in st.__dict__["graphs"].nodes(data=True):
            nodes.append([0, n, space_of(d.get("GraphID"))])
    else:
        ctr = [dict.get(st.__dict__["graph_node_ids"], gid(g), 1) for g in graphs]
        for name, G in list(dict.items(st.__dict__["graphs"])):
            for n, d in G.nodes(data=True):
                nodes.append([space_of(name), n, space_of(d.get("GraphID"))])
    return {"lock": lock.owner if lock.held else None, "relErr": lock.rel_err, "ctr": ctr, "nodes": sorted(nodes),
            "gen": 0 if st is getattr(lock.rec, "store0", st) else 1}


# --------------------------------------------------------------------------------------------
# scheduler

class Sched:
    """Runs worker threads one traced line at a time.  `decide(enabled, cur, step)` picks the next thread."""

    def __init__(self, n):
        self.n = n
        self.go = [threading.Semaphore(0) for _ in range(n)]
        self.back = threading.Semaphore(0)
        self.done = [False] * n
        self.blocked = [False] * n
        self.lock = None
        self.log = []     # (enabled tuple, chosen, cur)
        self.error = None
        self.aborted = False
        self.watch = None           # callable -> None | str, evaluated by the scheduler after every step
        self.broken = None

    # called from workers
    def yield_point(self, tid):
        if self.aborted:
            return
        self.back.release()
        self.go[tid].acquire()
        if self.aborted:
            raise Aborted()

    def yield_blocked(self, tid):
        if self.aborted:
            raise Aborted()
        self.blocked[tid] = True
        self.back.release()
        self.go[tid].acquire()
        self.blocked[tid] = False
        if self.aborted:
            raise Aborted()

    def worker(self, tid, rec, body):
        rec.tls.tid = tid
        self.go[tid].acquire()
        rec.tls.on = True
        sys.settrace(rec.global_trace)
        try:
            body()
        except Aborted:
            pass
        except BaseException as e:      # noqa - a crash of the harness itself
            self.error = e
        finally:
            sys.settrace(None)
            rec.tls.on = False
            try:
                rec.flush(tid)
            except Exception as e:      # noqa
                self.error = self.error or e
            self.done[tid] = True
            self.back.release()

    def enabled(self):
        return tuple(t for t in range(self.n) if not self.done[t] and not (self.blocked[t] and self.lock.held))

    def run(self, rec, bodies, decide, max_steps=20000):
        threads = [threading.Thread(target=self.worker, args=(t, rec, bodies[t]), daemon=True) for t in range(self.n)]
        for th in threads:
            th.start()
        cur = None
        steps = 0
        while True:
            en = self.enabled()
            if not en:
                break
            steps += 1
            if steps > max_steps:
                raise RuntimeError("scheduler: step limit")
            t = decide(en, cur, len(self.log))
            self.log.append((en, t, cur))
            cur = t
            self.go[t].release()
            self.back.acquire()
            if self.watch is not None and self.broken is None:
                self.broken = self.watch()
                if self.broken:
                    # the store / lock object was swapped: threads may now block on an uninstrumented lock.
                    # Unwind every worker (their finally clauses run untraced) and stop.
                    self.aborted = True
                    for u in range(self.n):
                        if not self.done[u]:
                            self.go[u].release()
                            self.back.acquire()
                    break
        stuck = [t for t in range(self.n) if not self.done[t]]
        # threads blocked forever on the lock: leave them parked (daemon threads); report
        return stuck


def decide_from(prefix, rng=None):
    """explicit decisions first; afterwards random (rng) or non-preemptive (stay on the current thread)"""
    def decide(en, cur, i):
        if i < len(prefix) and prefix[i] in en:
            return prefix[i]
        if rng is not None:
            return en[rng.randrange(len(en))]
        return cur if cur in en else en[0]
    return decide


def preemptions(log):
    return sum(1 for en, t, cur in log if cur is not None and cur in en and t != cur)


def run_threads(gen_report, flavour, thread_ops, decide, setup_ops=(), logger=None):
    """thread_ops: [[op,...] per thread]; returns dict(results, events, snapshot, log, stuck)"""
    n = len(thread_ops)
    sched = Sched(n)
    rec = Recorder(gen_report, None)
    imp, lock = fresh_store(flavour, rec, logger)
    # sequential setup (not scheduled, not recorded)
    # sequential setup: recorded as the program of an extra thread `n` that runs first
    if setup_ops:
        rec.start(tid=n)
        try:
            for j, op in enumerate(setup_ops):
                run_op(imp, rec, op, "s%d" % j)
        finally:
            rec.stop()
    rec.sched = sched
    sched.lock = lock
    sched.watch = lambda: identity(rec)
    results = [[] for _ in range(n)]

    def body(t):
        def f():
            for j, op in enumerate(thread_ops[t]):
                results[t].append(run_op(imp, rec, op, "%d-%d" % (t, j)))
        return f
    stuck = sched.run(rec, [body(t) for t in range(n)], decide)
    if sched.error is not None:
        raise sched.error
    graphs = sorted({op[1] for ops in list(thread_ops) + [list(setup_ops)] for op in ops})
    return {"results": results, "events": rec.events, "snapshot": snapshot(flavour, imp, lock, graphs), "log": sched.log,
            "stuck": [] if sched.broken else stuck, "graphs": graphs, "rec": rec, "imp": imp, "lock": lock,
            "identity": sched.broken or identity(rec)}


def explore(gen_report, flavour, thread_ops, bound, budget, setup_ops=(), visit=None, logger=None):
    """DFS over schedules with at most `bound` preemptions; returns number of runs, exhausted?"""
    stack = [[]]
    runs = 0
    while stack:
        if runs >= budget:
            return runs, False
        prefix = stack.pop()
        r = run_threads(gen_report, flavour, thread_ops, decide_from(prefix), setup_ops, logger)
        runs += 1
        r["prefix"] = prefix
        if visit:
            visit(r)
        log = r["log"]
        for i in range(len(prefix), len(log)):
            en, chosen, cur = log[i]
            base = preemptions(log[:i])
            for alt in en:
                if alt == chosen:
                    continue
                cost = base + (1 if (cur is not None and cur in en and alt != cur) else 0)
                if cost <= bound:
                    stack.append([d[1] for d in log[:i]] + [alt])
    return runs, True
