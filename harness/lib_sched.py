"""Deterministic line-level scheduling of real threads through the two graph stores (C20).

* `ILock` replaces `storage.storage_instance.lock`: same observable behaviour as threading.Lock
  (release by any thread, RuntimeError on releasing a free lock) but it records every event, never blocks
  the interpreter (a busy acquire yields to the scheduler) and reports a self-deadlock instead of hanging.
* `Recorder` installs a trace function that fires on every source line of the store classes (line table
  and class ranges come from gen/lockcfg.py, i.e. from the current source), turns each line into the
  micro-instructions of the Lean model, instantiated with the current operation's graph / size, and
  (when a `Sched` is attached) hands control back to the scheduler before the line runs.
* `Sched` runs N worker threads one line at a time following a decision procedure (explicit prefix, then
  non-preemptive default); `explore` enumerates schedules up to a preemption bound.

Not modelled / not controlled: preemption inside one source line, CPython's atomicity of dict operations.
"""
import os
import sys
import threading

import networkx as nx

from core import REPO, err_kind

K = 100  # symbolic size used by gen/lockcfg.py


class SelfDeadlock(Exception):
    pass


class Aborted(BaseException):
    """raised inside a worker to unwind it when a run is abandoned (the store object was replaced)"""


class ILock:
    def __init__(self, rec):
        self.rec = rec
        self.held = False
        self.owner = None
        self.n_acq = 0
        self.n_rel = 0
        self.rel_err = False
        self.deadlock = False

    def acquire(self, blocking=True, timeout=-1):
        me = self.rec.current()
        sched = self.rec.sched
        while self.held:
            if sched is None or self.owner == me:
                # nobody else can ever release it: the call would hang forever
                self.deadlock = True
                raise SelfDeadlock("acquire of a lock that will never be released (held by %r)" % (self.owner,))
            sched.yield_blocked(me)
        self.held = True
        self.owner = me
        self.n_acq += 1
        self.rec.event(me, "acq")
        return True

    def release(self):
        me = self.rec.current()
        self.rec.event(me, "rel")
        if not self.held:
            self.rel_err = True
            raise RuntimeError("release unlocked lock")
        self.held = False
        self.owner = None
        self.n_rel += 1

    def locked(self):
        return self.held

    def __enter__(self):
        self.acquire()

    def __exit__(self, *a):
        self.release()


def instantiate(micro, g, k):
    """symbolic micro string from the line table -> concrete JSON micro for graph index g (>=1), size k"""
    p = micro.split()
    if p[0] == "ctor":
        return ["ctor", p[1] == "true"]
    op, a = p[0], [int(x) for x in p[1:]]

    def ctr(c):
        return 0 if c == 0 else g

    def size(s):
        return k if s == K else (k + 1 if s == K + 1 else s)
    if op in ("rdg", "loc", "delAll", "acq", "rel"):
        return [op]
    if op == "read":
        return [op, ctr(a[0])]
    if op == "bump":
        return [op, ctr(a[0]), size(a[1])]
    if op == "add":
        return [op, ctr(a[0]), g, size(a[2])]
    if op == "addFrom":
        return [op, ctr(a[0]), g, a[2], size(a[3])]
    if op == "setCtr":
        return [op, ctr(a[0]), size(a[1])]
    if op == "del":
        return [op, g]
    if op == "delSpace":
        return [op, ctr(a[0])]
    raise ValueError(micro)


def symbolic(micro):
    p = micro.split()
    if p[0] == "ctor":
        return ["ctor", p[1] == "true"]
    return [p[0]] + [int(x) for x in p[1:]]


class Recorder:
    """Line tracer for the store classes."""

    def __init__(self, gen_report, sched=None):
        self.sched = sched
        self.files = {}
        for fl, rg in gen_report["ranges"].items():
            path = os.path.realpath(os.path.join(REPO, rg["file"]))
            self.files[path] = (fl, rg["first"], rg["last"], {int(k): v for k, v in gen_report["lines"][fl].items()},
                                {n: tuple(r) for n, r in rg["methods"].items()}, tuple(rg.get("shell", (rg["first"], rg["last"]))))
        self.events = []          # (thread, symbolic micro, concrete micro)
        self.ctx = {}             # thread -> (g, k)
        self.tls = threading.local()
        self._fncache = {}
        self.calls = []
        self.depth = {}
        self.cur_op = {}
        self.lock = None
        self.flavour = None

    def current(self):
        return getattr(self.tls, "tid", 0)

    def set_ctx(self, g, k, op=None):
        self.ctx[self.current()] = (g, k)
        self.cur_op[self.current()] = op

    def event(self, tid, micro):
        g, k = self.ctx.get(tid, (1, 0))
        self.events.append((tid, symbolic(micro), instantiate(micro, g, k)))

    # ---- tracing
    def _file(self, code):
        fn = code.co_filename
        r = self._fncache.get(fn)
        if r is None:
            r = self._fncache[fn] = self.files.get(os.path.realpath(fn), False)
        return r

    def global_trace(self, frame, event, arg):
        if event != "call":
            return None
        f = self._file(frame.f_code)
        if not f:
            return None
        ln = frame.f_code.co_firstlineno
        if not (f[5][0] <= ln <= f[5][1]):
            return None                      # outside the shell class (which contains the store class)
        inner = f[1] <= ln <= f[2]
        if frame.f_code.co_name == "<lambda>" or (inner and frame.f_code.co_name == "__init__"):
            return None
        return self.local_trace

    def local_trace(self, frame, event, arg):
        if event == "line":
            tid = self.current()
            if self.sched is not None:
                self.sched.yield_point(tid)
            f = self._file(frame.f_code)
            for m in f[3].get(frame.f_lineno, ()):
                self.event(tid, m)
        return self.local_trace

    def start(self, tid=0):
        self.tls.tid = tid
        sys.settrace(self.global_trace)

    def stop(self):
        sys.settrace(None)


# --------------------------------------------------------------------------------------------
# stores and operations

def fresh_store(flavour, rec):
    import fim.graph.networkx_property_graph as pg
    import fim.graph.networkx_property_graph_disjoint as pgd
    pg.NetworkXGraphStorage.storage_instance = None
    pgd.NetworkXGraphStorageDisjoint.storage_instance = None
    imp = pg.NetworkXGraphImporter() if flavour == "shared" else pgd.NetworkXGraphImporterDisjoint()
    lock = ILock(rec)
    imp.storage.storage_instance.lock = lock
    rec.lock = lock
    rec.flavour = flavour
    rec.store0 = imp.storage.storage_instance
    rec.shell_cls = type(imp.storage)
    rec.importer_cls = type(imp)
    _install_wrappers(type(imp.storage.storage_instance), flavour)
    global _REC
    _REC = rec
    return imp, lock


_REC = None


def identity(rec):
    """the singleton protocol: one store object and one lock object for the lifetime of the process"""
    if rec.shell_cls.storage_instance is not rec.store0:
        return "store-object-replaced"
    if rec.store0.lock is not rec.lock:
        return "lock-object-replaced"
    return None


def _install_wrappers(cls, flavour):
    """Record every outermost call of a public store method: (thread, name, first event, last event, outcome,
    lock counters before/after).  The wrappers live in this file, so they are not traced."""
    if getattr(cls, "_c20_wrapped", False):
        return
    for name, fn in list(vars(cls).items()):
        if not callable(fn) or name.startswith("_"):
            continue

        def mk(name, fn):
            def wrapper(self, *a, **kw):
                rec = _REC
                if rec is None or getattr(self, "lock", None) is not rec.lock:
                    return fn(self, *a, **kw)
                tid = rec.current()
                depth = rec.depth.get(tid, 0)
                if depth:
                    return fn(self, *a, **kw)
                rec.depth[tid] = 1
                lk = rec.lock
                start = len(rec.events)
                before = (lk.n_acq, lk.n_rel)
                call = {"tid": tid, "method": "%s.%s" % (rec.flavour, name), "start": start, "outcome": "unfinished",
                        "op": rec.cur_op.get(tid)}
                rec.calls.append(call)
                try:
                    r = fn(self, *a, **kw)
                    call["outcome"] = "done"
                    return r
                except SelfDeadlock:
                    call["outcome"] = "deadlock"
                    raise
                except RuntimeError as e:
                    call["outcome"] = "relerr" if "release unlocked lock" in str(e) else "exc"
                    raise
                except BaseException:
                    call["outcome"] = "exc"
                    raise
                finally:
                    rec.depth[tid] = 0
                    call["end"] = len(rec.events)
                    call["acq"] = lk.n_acq - before[0]
                    call["rel"] = lk.n_rel - before[1]
                    call["held_after"] = bool(lk.held and lk.owner == tid)
            wrapper.__name__ = name
            return wrapper
        setattr(cls, name, mk(name, fn))
    cls._c20_wrapped = True


def gid(g):
    return "graph-%d" % g


def make_graph(g, k, missing=None, direct=False, salt=""):
    """k nodes; `missing` = index of a node without NodeID (failing import)"""
    G = nx.Graph()
    for i in range(k):
        a = {"Class": "NetworkNode", "Name": "n%d" % i}
        if missing != i:
            a["NodeID"] = "%s-n%d%s" % (gid(g), i, salt)
        if direct:
            a["GraphID"] = gid(g)
        G.add_node("x%d" % i, **a)
    for i in range(k - 1):
        G.add_edge("x%d" % i, "x%d" % (i + 1), Class="connects")
    return G


METHOD_OF = {"add_graph": "add_graph", "add_graph_bad": "add_graph", "add_graph_direct": "add_graph_direct",
             "del_graph": "del_graph", "extract_graph": "extract_graph", "get_graph": "get_graph",
             "del_all_graphs": "del_all_graphs", "add_blank": "add_blank_node_to_graph", "add_node": None}


def run_op(imp, rec, op, uniq):
    """op = [kind, g, k]; returns ["ok", summary] | ["err", kind]"""
    kind, g, k = op
    rec.set_ctx(g, k if kind in ("add_graph", "add_graph_bad", "add_graph_direct") else 1, uniq)
    try:
        # what a client does: a freshly constructed importer per operation (singleton creation guard runs each time);
        # the shell resolves the current store at every call
        imp = rec.importer_cls()
        st = imp.storage
        if kind == "add_graph":
            st.add_graph(gid(g), make_graph(g, k))
            return ["ok", None]
        if kind == "add_graph_bad":
            st.add_graph(gid(g), make_graph(g, k, missing=k - 1))
            return ["ok", None]
        if kind == "add_graph_direct":
            st.add_graph_direct(gid(g), make_graph(g, k, direct=True))
            return ["ok", None]
        if kind == "del_graph":
            st.del_graph(gid(g))
            return ["ok", None]
        if kind == "extract_graph":
            r = st.extract_graph(gid(g))
            return ["ok", None if r is None else len(r.nodes)]
        if kind == "get_graph":
            st.get_graph(gid(g))
            return ["ok", None]
        if kind == "del_all_graphs":
            st.del_all_graphs()
            return ["ok", None]
        if kind == "add_blank":
            return ["ok", st.add_blank_node_to_graph(gid(g), Class="NetworkNode", NodeID="blank-%s" % uniq)]
        if kind == "add_node":
            pgr = imp.graph_class(graph_id=gid(g), importer=imp)
            pgr.add_node(node_id="api-%s" % uniq, label="NetworkNode", props={"Name": "api"})
            return ["ok", None]
        raise ValueError(kind)
    except SelfDeadlock:
        return ["err", "deadlock"]
    except Exception as e:
        return ["err", err_kind(e)]


def snapshot(flavour, imp, lock, graphs):
    """canonical final state in the vocabulary of the Lean model; `graphs` = graph indices in play"""
    st = imp.storage.storage_instance      # the store a client sees now
    idx = {gid(g): g for g in graphs}
    nodes = []
    if flavour == "shared":
        ctr = [st.start_id]
        for n, d in st.graphs.nodes(data=True):
            nodes.append([0, n, idx.get(d.get("GraphID"), 0)])
    else:
        ctr = [st.graph_node_ids.get(gid(g), 1) for g in graphs]
        for name, G in list(st.graphs.items()):
            for n, d in G.nodes(data=True):
                nodes.append([idx.get(name, 0), n, idx.get(d.get("GraphID"), 0)])
    return {"lock": lock.owner if lock.held else None, "relErr": lock.rel_err, "ctr": ctr, "nodes": sorted(nodes),
            "gen": 0 if st is getattr(lock.rec, "store0", st) else 1}


# --------------------------------------------------------------------------------------------
# scheduler

class Sched:
    """Runs worker threads one traced line at a time.  `decide(enabled, cur, step)` picks the next thread."""

    def __init__(self, n):
        self.n = n
        self.go = [threading.Semaphore(0) for _ in range(n)]
        self.back = threading.Semaphore(0)
        self.done = [False] * n
        self.blocked = [False] * n
        self.lock = None
        self.log = []     # (enabled tuple, chosen, cur)
        self.error = None
        self.aborted = False
        self.watch = None           # callable -> None | str, evaluated by the scheduler after every step
        self.broken = None

    # called from workers
    def yield_point(self, tid):
        if self.aborted:
            return
        self.back.release()
        self.go[tid].acquire()
        if self.aborted:
            raise Aborted()

    def yield_blocked(self, tid):
        if self.aborted:
            raise Aborted()
        self.blocked[tid] = True
        self.back.release()
        self.go[tid].acquire()
        self.blocked[tid] = False
        if self.aborted:
            raise Aborted()

    def worker(self, tid, rec, body):
        rec.tls.tid = tid
        self.go[tid].acquire()
        sys.settrace(rec.global_trace)
        try:
            body()
        except Aborted:
            pass
        except BaseException as e:      # noqa - a crash of the harness itself
            self.error = e
        finally:
            sys.settrace(None)
            self.done[tid] = True
            self.back.release()

    def enabled(self):
        return tuple(t for t in range(self.n) if not self.done[t] and not (self.blocked[t] and self.lock.held))

    def run(self, rec, bodies, decide, max_steps=20000):
        threads = [threading.Thread(target=self.worker, args=(t, rec, bodies[t]), daemon=True) for t in range(self.n)]
        for th in threads:
            th.start()
        cur = None
        steps = 0
        while True:
            en = self.enabled()
            if not en:
                break
            steps += 1
            if steps > max_steps:
                raise RuntimeError("scheduler: step limit")
            t = decide(en, cur, len(self.log))
            self.log.append((en, t, cur))
            cur = t
            self.go[t].release()
            self.back.acquire()
            if self.watch is not None and self.broken is None:
                self.broken = self.watch()
                if self.broken:
                    # the store / lock object was swapped: threads may now block on an uninstrumented lock.
                    # Unwind every worker (their finally clauses run untraced) and stop.
                    self.aborted = True
                    for u in range(self.n):
                        if not self.done[u]:
                            self.go[u].release()
                            self.back.acquire()
                    break
        stuck = [t for t in range(self.n) if not self.done[t]]
        # threads blocked forever on the lock: leave them parked (daemon threads); report
        return stuck


def decide_from(prefix, rng=None):
    """explicit decisions first; afterwards random (rng) or non-preemptive (stay on the current thread)"""
    def decide(en, cur, i):
        if i < len(prefix) and prefix[i] in en:
            return prefix[i]
        if rng is not None:
            return en[rng.randrange(len(en))]
        return cur if cur in en else en[0]
    return decide


def preemptions(log):
    return sum(1 for en, t, cur in log if cur is not None and cur in en and t != cur)


def run_threads(gen_report, flavour, thread_ops, decide, setup_ops=()):
    """thread_ops: [[op,...] per thread]; returns dict(results, events, snapshot, log, stuck)"""
    n = len(thread_ops)
    sched = Sched(n)
    rec = Recorder(gen_report, None)
    imp, lock = fresh_store(flavour, rec)
    # sequential setup (not scheduled, not recorded)
    # sequential setup: recorded as the program of an extra thread `n` that runs first
    if setup_ops:
        rec.start(tid=n)
        try:
            for j, op in enumerate(setup_ops):
                run_op(imp, rec, op, "s%d" % j)
        finally:
            rec.stop()
    rec.sched = sched
    sched.lock = lock
    sched.watch = lambda: identity(rec)
    results = [[] for _ in range(n)]

    def body(t):
        def f():
            for j, op in enumerate(thread_ops[t]):
                results[t].append(run_op(imp, rec, op, "%d-%d" % (t, j)))
        return f
    stuck = sched.run(rec, [body(t) for t in range(n)], decide)
    if sched.error is not None:
        raise sched.error
    graphs = sorted({op[1] for ops in list(thread_ops) + [list(setup_ops)] for op in ops})
    return {"results": results, "events": rec.events, "snapshot": snapshot(flavour, imp, lock, graphs), "log": sched.log,
            "stuck": [] if sched.broken else stuck, "graphs": graphs, "rec": rec, "imp": imp, "lock": lock,
            "identity": sched.broken or identity(rec)}


def explore(gen_report, flavour, thread_ops, bound, budget, setup_ops=(), visit=None):
    """DFS over schedules with at most `bound` preemptions; returns number of runs, exhausted?"""
    stack = [[]]
    runs = 0
    while stack:
        if runs >= budget:
            return runs, False
        prefix = stack.pop()
        r = run_threads(gen_report, flavour, thread_ops, decide_from(prefix), setup_ops)
        runs += 1
        r["prefix"] = prefix
        if visit:
            visit(r)
        log = r["log"]
        for i in range(len(prefix), len(log)):
            en, chosen, cur = log[i]
            base = preemptions(log[:i])
            for alt in en:
                if alt == chosen:
                    continue
                cost = base + (1 if (cur is not None and cur in en and alt != cur) else 0)
                if cost <= bound:
                    stack.append([d[1] for d in log[:i]] + [alt])
    return runs, True
