"""Writes /verif/MANIFEST.json from the table below (run by hand after adding a property)."""
import json
import os

VERIF = os.path.dirname(os.path.dirname(os.path.abspath(__file__)))

# claims/<Cxx>.json: {"technique", "text", "note", "design_ref"} — one file per claimed property
def load_claims():
    out = {}
    d = os.path.join(VERIF, "claims")
    for fn in sorted(os.listdir(d)):
        if fn.endswith(".json"):
            c = json.load(open(os.path.join(d, fn)))
            out[fn[:-5]] = (c["technique"], c["text"], c["note"], c["design_ref"])
    return out


CLAIMS = load_claims()

PENDING_REASON = "check not built yet in this round (planned in DESIGN.md section 4); not claimed until its machinery exists"


def main():
    props = [json.loads(l)["id"] for l in open(os.path.join(VERIF, "properties.jsonl"))]
    checks = []
    for pid in props:
        if pid not in CLAIMS:
            continue
        tech, text, note, ref = CLAIMS[pid]
        checks.append({
            "property_id": pid,
            "quick_cmd": "./check %s --tier quick" % pid,
            "thorough_cmd": "./check %s --tier thorough" % pid,
            "evidence_file": "/verif/evidence/%s.json" % pid,
            "replay_cmd_template": "./check %s --replay {path}" % pid,
            "engine": "fimverif-lean",
            "level_claimed": {"category": "proof", "text": text, "design_ref": "DESIGN.md " + ref},
            "level_note": note,
            "technique": tech,
        })
    man = {
        "version": 1,
        "setup_cmd": "./setup.sh",
        "hooks": {
            "guard": "FIM_VERIF",
            "enable": "no source hooks are needed: checks import /repo's working tree with PYTHONPATH=/repo and observe through the public API, "
                      "objects substituted from the harness (store lock, stand-in Neo4j driver) and sys.settrace; FIM_VERIF=1 is exported by ./check "
                      "for forward compatibility",
            "baseline_off_cmd": "cd /repo && /venv/bin/python -m pytest -ra -q -p no:cacheprovider --timeout=900 --continue-on-collection-errors",
            "source_commits": [],
            "add_only": True,
        },
        "engines": [{
            "name": "fimverif-lean", "path": "/verif/lean",
            "serves_properties": [c["property_id"] for c in checks],
            "kind_free_text": "Lean 4 library FimVerif (models, generated tables, property theorems, line-protocol drivers) + Python translator "
                              "(/verif/gen) + differential correspondence and property oracles (/verif/harness)",
        }],
        "checks": checks,
        "not_applicable": [{"property_id": p, "reason": PENDING_REASON} for p in props if p not in CLAIMS],
        "notes": "Exit 0 held / 1 violation / 2 infrastructure or timeout. Known findings are listed per property in /verif/known_findings/<id>.json "
                 "(committed, never written at run time). When a translator does not recognise changed source the check keeps the model of the "
                 "unchanged tree (gen/baseline) and decides by correspondence + oracle + search, printing a NOTE line (DESIGN.md 9.7). "
                 "Seeded changes: /verif/seeded; behaviour-preserving rewrites: /verif/refactors (DESIGN.md 9.5, 9.5b).",
    }
    with open(os.path.join(VERIF, "MANIFEST.json"), "w") as f:
        json.dump(man, f, indent=1)
        f.write("\n")
    try:
        import jsonschema
        jsonschema.validate(man, json.load(open("/root/.vp/MANIFEST.schema.json")))
        print("MANIFEST.json valid; %d checks, %d not_applicable" % (len(checks), len(man["not_applicable"])))
    except ImportError:
        print("written (jsonschema not available to validate)")


if __name__ == "__main__":
    main()
