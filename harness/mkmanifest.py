"""Writes /verif/MANIFEST.json from the table below (run by hand after adding a property)."""
import json
import os

VERIF = os.path.dirname(os.path.dirname(os.path.abspath(__file__)))

# id -> (technique, level text, level note, design ref)
CLAIMS = {
    "C15": ("Lean 4 theorems over all Int-valued capacities; field operators regenerated from the Python AST each run; differential line-protocol check of the lifted model",
            "Proof: 15 Lean theorems (cancel, commutativity, free+allocated, fits <-> no negative field of the difference, negative fields by name, "
            "equality laws) hold for every capacity value over any field list; the per-field operators they are about are translated from the "
            "source of Capacities/FreeCapacity on every run, so an edited operator is re-proved or fails. A law that fails on the code is "
            "replayed as a concrete operand pair.",
            "Trusted: Lean kernel (+propext, Classical.choice, Quot.sound), the AST patterns of gen/capops.py, the lifting of field operators over "
            "__dict__ (checked differentially on ~14k operations per quick run), Python int = Lean Int.",
            "4/C15"),
    "C18": ("Lean 4 theorems for every catalogue and every request in N^3 (sufficient, Pareto-minimal, fallback, class lemma) + decide over the complete regenerated catalogue tables; differential sweep over both ends of every threshold class",
            "Proof: for any catalogue and any (core, ram, disk) request the modelled selection returns a satisfying size whenever one exists, such that no "
            "other satisfying size is componentwise smaller-or-equal, and the last entry otherwise (which, for the regenerated current catalogue, is "
            "kernel-checked to dominate every entry); the answer depends only on the request's threshold class, so the harness's sweep over both ends "
            "of every class validates the one modelled piece (CPython's list.sort head under the partial order) completely on each run. Components: "
            "lookup finds every model and alias at its own entry (no shadowing, kernel-checked on the regenerated table), and a generated component "
            "has exactly the entry's interfaces, speeds, kinds, unit counts with ids/labels positional (theorem over all argument lists).",
            "Trusted: Lean kernel (+propext, Classical.choice, Quot.sound); gen/catalog.py (JSON tables, AST shape of map_capacities_to_instance and constants of "
            "generate_component); list.sort's head modelled by a running-head fold (validated exhaustively per class each run); distinct instance names taken "
            "from dict semantics (translator rejects duplicates); uuid4 freshness.",
            "4/C18"),
}

PENDING_REASON = "check not built yet in this round (planned in DESIGN.md section 4); not claimed until its machinery exists"


def main():
    props = [json.loads(l)["id"] for l in open(os.path.join(VERIF, "properties.jsonl"))]
    checks = []
    for pid in props:
        if pid not in CLAIMS:
            continue
        tech, text, note, ref = CLAIMS[pid]
        checks.append({
            "property_id": pid,
            "quick_cmd": "./check %s --tier quick" % pid,
            "thorough_cmd": "./check %s --tier thorough" % pid,
            "evidence_file": "/verif/evidence/%s.json" % pid,
            "replay_cmd_template": "./check %s --replay {path}" % pid,
            "engine": "fimverif-lean",
            "level_claimed": {"category": "proof", "text": text, "design_ref": "DESIGN.md " + ref},
            "level_note": note,
            "technique": tech,
        })
    man = {
        "version": 1,
        "setup_cmd": "./setup.sh",
        "hooks": {
            "guard": "FIM_VERIF",
            "enable": "no source hooks are needed: checks import /repo's working tree with PYTHONPATH=/repo and observe through the public API, "
                      "objects substituted from the harness (store lock, stand-in Neo4j driver) and sys.settrace; FIM_VERIF=1 is exported by ./check "
                      "for forward compatibility",
            "baseline_off_cmd": "cd /repo && /venv/bin/python -m pytest -ra -q -p no:cacheprovider --timeout=900 --continue-on-collection-errors",
            "source_commits": [],
            "add_only": True,
        },
        "engines": [{
            "name": "fimverif-lean", "path": "/verif/lean",
            "serves_properties": [c["property_id"] for c in checks],
            "kind_free_text": "Lean 4 library FimVerif (models, generated tables, property theorems, line-protocol drivers) + Python translator "
                              "(/verif/gen) + differential correspondence and property oracles (/verif/harness)",
        }],
        "checks": checks,
        "not_applicable": [{"property_id": p, "reason": PENDING_REASON} for p in props if p not in CLAIMS],
        "notes": "Exit 0 held / 1 violation / 2 infrastructure or timeout. Known findings are listed in /verif/known_findings.json.",
    }
    with open(os.path.join(VERIF, "MANIFEST.json"), "w") as f:
        json.dump(man, f, indent=1)
        f.write("\n")
    try:
        import jsonschema
        jsonschema.validate(man, json.load(open("/root/.vp/MANIFEST.schema.json")))
        print("MANIFEST.json valid; %d checks, %d not_applicable" % (len(checks), len(man["not_applicable"])))
    except ImportError:
        print("written (jsonschema not available to validate)")


if __name__ == "__main__":
    main()
