"""A STATEFUL stand-in for the Neo4j server (C19, round 5): the recording driver of lib_fake_neo4j plus a shadow store.

Why: operations of the base classes (abc_arm.generate_adms, abc_adm.rewrite_delegations, abc_cbm / neo4j_cbm merge and unmerge,
the sliver builders and removers of abc_property_graph, the ASM finders, the importer) READ values from the database and hand them
to the statement-building primitives; which primitive they call, and with what, depends on what the database holds.  Scripted
records reach single branches; a store reaches whatever a real history reaches.

How: no Cypher is interpreted.  Every method of the Neo4j classes that itself calls `session.run` (found by an ast scan) is
wrapped: the REAL method runs first against the recording driver (its statements are recorded exactly as the library builds them,
whatever the library's text looks like today), then the same call is made on a NetworkX graph of the same graph id in a private
NetworkX store and THAT result is returned to the caller.  The NetworkX backend implements the same abstract interface, so the
callers in the base classes see the answers a database holding the same graph would give.  Primitives without a NetworkX
counterpart (the CBM's own queries, _validate_graph) return what the real method returned on the permissive canned answers.

Round 7: the real method's own statements are answered from the store as well (Shadow.server_view), so that state a primitive keeps
(on the handle, in a class-level table) or hands to an enclosing primitive holds what the database holds; strings the server holds in
Class / Type / Model / Layer / StitchNode properties are roles of their own (OVERLAY_ROLES); `handle_history`: histories of calls on
one graph handle (a reader, then every statement-building method; the reader on a second handle; the subclasses' handles).
"""
import inspect
import json
import os
import shutil
import tempfile

import lib_fake_neo4j as fake


def _neo():
    from fim.graph.neo4j_property_graph import Neo4jPropertyGraph, Neo4jGraphImporter
    from fim.graph.resources.neo4j_cbm import Neo4jCBMGraph
    from fim.graph.slices.neo4j_asm import Neo4jASM
    from fim.graph.resources.neo4j_adm import Neo4jADMGraph
    from fim.graph.resources.neo4j_arm import Neo4jARMGraph
    return {"Neo4jPropertyGraph": Neo4jPropertyGraph, "Neo4jGraphImporter": Neo4jGraphImporter, "Neo4jCBMGraph": Neo4jCBMGraph,
            "Neo4jASM": Neo4jASM, "Neo4jADMGraph": Neo4jADMGraph, "Neo4jARMGraph": Neo4jARMGraph}


IMPORTER_EXTRA = ["import_graph_from_string", "import_graph_from_string_direct", "import_graph_from_file_direct", "cast_graph"]


class Shadow:
    """context manager; `prims`: {(class name, method name)} of the methods that call run() (the caller's own scan)"""

    def __init__(self, prims):
        self.prims = set(prims) | {("Neo4jGraphImporter", m) for m in IMPORTER_EXTRA}
        self.depth = 0
        self.saved = []
        self.unshadowed = set()
        self.tok = Tok()

    def __enter__(self):
        from fim.graph.networkx_property_graph import NetworkXGraphStorage, NetworkXGraphImporter
        self.K = _neo()
        self.old_storage = NetworkXGraphStorage.storage_instance
        NetworkXGraphStorage.storage_instance = None
        self.tmp = tempfile.mkdtemp(prefix="c19-shadow-")
        self.imp = fake.make_importer(self.server_view, import_dir=self.tmp)
        self.nx_imp = NetworkXGraphImporter(logger=self.imp.log)
        # ... and, whether or not they call run() themselves (a rewrite may move the call into a helper), the methods the Neo4j
        # classes define under a name the NetworkX counterpart has too: the backend's side of the abstract interface
        from fim.graph.networkx_property_graph import NetworkXPropertyGraph
        from fim.graph.slices.networkx_asm import NetworkxASM
        for cname, peer in (("Neo4jPropertyGraph", NetworkXPropertyGraph), ("Neo4jASM", NetworkxASM), ("Neo4jGraphImporter", NetworkXGraphImporter)):
            for mname, f in self.K[cname].__dict__.items():
                if inspect.isfunction(f) and not mname.startswith("_") and mname in peer.__dict__:
                    self.prims.add((cname, mname))
        for cname, mname in sorted(self.prims):
            cls = self.K.get(cname)
            if cls is None or mname not in cls.__dict__ or not inspect.isfunction(cls.__dict__[mname]):
                continue
            orig = cls.__dict__[mname]
            self.saved.append((cls, mname, orig))
            setattr(cls, mname, self._wrap(cname, mname, orig))
        return self

    def __exit__(self, *a):
        from fim.graph.networkx_property_graph import NetworkXGraphStorage
        for cls, mname, orig in self.saved:
            setattr(cls, mname, orig)
        self.saved = []
        NetworkXGraphStorage.storage_instance = self.old_storage
        self.imp.driver = None      # Neo4jGraphImporter.__del__ closes the driver
        shutil.rmtree(self.tmp, ignore_errors=True)
        return False

    # what the SERVER holding the store answers a statement of a real primitive with (round 7).  No Cypher is interpreted: a
    # statement whose parameters name a node (graphId + nodeId) or a link (graphId + nodeA + nodeB) of the store is answered with
    # that node's labels and properties / that link's type and properties, anything else with the permissive default.  What a
    # real primitive derives from its results (return values handed to an enclosing primitive, state it keeps on the graph handle
    # or anywhere else in the process) then derives from what the database HOLDS.  Labels and the Class property are distinct
    # things on the server (the NetworkX backend has only the property): the label is the benign class, the property is a stored
    # string like any other (roles of OVERLAY_ROLES: update_node_property(prop_name='Class', ...) / an imported document put it there)
    def _store_node(self, gid, nid):
        for _, d in self.nx_imp.storage.graphs.nodes(data=True):
            if d.get("GraphID") == gid and d.get("NodeID") == nid:
                return d
        return None

    def _store_link(self, gid, a, b):
        g = self.nx_imp.storage.graphs
        ids = {}
        for i, d in g.nodes(data=True):
            if d.get("GraphID") == gid and d.get("NodeID") in (a, b):
                ids[d.get("NodeID")] = i
        if a in ids and b in ids and g.has_edge(ids[a], ids[b]):
            return g.edges[ids[a], ids[b]]
        return None

    def server_props(self, props):
        out = dict(props)
        p = OVERLAY_ROLES.get(self.tok.role)
        if p and isinstance(out.get(p), str):
            out[p] = out[p] + self.tok.payload
        return out

    def server_view(self, text, params):
        gid = params.get("graphId")
        c = {}
        if isinstance(gid, str):
            nid = params.get("nodeId")
            if isinstance(nid, str):
                d = self._store_node(gid, nid)
                if d is not None:
                    c["labels"] = [d.get("Class")]
                    c["node_props"] = self.server_props(d)
            a, b = params.get("nodeA"), params.get("nodeB")
            if isinstance(a, str) and isinstance(b, str):
                e = self._store_link(gid, a, b)
                if e is not None:
                    c["link_type"] = e.get("Class")
                    c["link_props"] = dict(e)
        return c

    # the NetworkX object standing for a Neo4j object
    def shadow_of(self, obj):
        from fim.graph.networkx_property_graph import NetworkXPropertyGraph
        K = self.K
        if isinstance(obj, K["Neo4jGraphImporter"]):
            return self.nx_imp
        if isinstance(obj, K["Neo4jASM"]):
            from fim.graph.slices.networkx_asm import NetworkxASM
            return NetworkxASM(graph_id=obj.graph_id, importer=self.nx_imp, logger=self.imp.log)
        return NetworkXPropertyGraph(graph_id=obj.graph_id, importer=self.nx_imp, logger=self.imp.log)

    def _to_shadow(self, v):
        if isinstance(v, self.K["Neo4jPropertyGraph"]):
            return self.shadow_of(v)
        return v

    def _from_shadow(self, v):
        from fim.graph.networkx_property_graph import NetworkXPropertyGraph
        if isinstance(v, NetworkXPropertyGraph):
            return self.K["Neo4jPropertyGraph"](graph_id=v.graph_id, importer=self.imp, logger=self.imp.log)
        return v

    def _wrap(self, cname, mname, orig):
        sh = self

        def wrapper(self_, *a, **kw):
            sh.depth += 1
            exc, ret = None, None
            try:
                ret = orig(self_, *a, **kw)
            except Exception as e:        # the permissive canned answers may not satisfy the real method; its statements are recorded
                exc = e
            finally:
                sh.depth -= 1
            if sh.depth > 0:              # a primitive called by a primitive: the outermost one speaks for the store
                if exc is not None:
                    raise exc
                return ret
            target = sh.shadow_of(self_)
            f = getattr(target, mname, None)
            if f is None or mname.startswith("_"):
                sh.unshadowed.add("%s.%s" % (cname, mname))
                if exc is not None:
                    raise exc
                return ret
            return sh._from_shadow(f(*[sh._to_shadow(x) for x in a], **{k: sh._to_shadow(v) for k, v in kw.items()}))
        wrapper.__name__ = mname
        wrapper.__wrapped__ = orig
        return wrapper

    def values(self):
        """every string the store holds (node and link property values)"""
        g = self.nx_imp.storage.graphs
        out = set()
        for _, d in g.nodes(data=True):
            out.update(v for v in self.server_props(d).values() if isinstance(v, str))
        for _, _, d in g.edges(data=True):
            out.update(v for v in d.values() if isinstance(v, str))
        return out

    def take(self):
        rec = [(t, sorted(p), p) for t, p in self.imp.driver.take()]
        return rec, list(self.imp.driver.last_where)


# ------------------------------------------------------------------------------------------------------------
# the world: what the database holds.  Every caller-chosen string of the world is a ROLE; a run with one role's strings replaced
# by strings carrying a payload (consistently, everywhere the role occurs: node properties, JSON leaves and keys, arguments)
# must hand the same statement texts to the driver.

ROLES = ["graph-id", "adm-graph-id", "node-id", "name", "site", "delegation-id", "pool-id", "label-value", "details", "mapped-id"]
# strings the SERVER holds in properties the library normally fills from its own vocabularies (round 7): the NetworkX store keeps the
# benign string (it derives labels from Class and the library parses Type / Layer into enums), the server's answers to the real
# primitives (Shadow.server_view) carry the payload
OVERLAY_ROLES = {"stored-class": "Class", "stored-type": "Type", "stored-model": "Model", "stored-layer": "Layer", "stored-stitch": "StitchNode"}
ROLES += list(OVERLAY_ROLES)


class Tok:
    """role -> string; `t.x("name", "srv1")` = the string the world uses for the benign string `srv1` of role `name`"""

    def __init__(self, role=None, payload=""):
        self.role, self.payload = role, payload

    def x(self, role, s):
        return s + self.payload if role == self.role else s


def _deleg(atype, entries):
    """Delegations JSON: entries = [(delegation id, pool id or None, details or None)]"""
    from fim.slivers.delegations import Delegation, Delegations
    ds = Delegations(atype=atype)
    for did, pool, det in entries:
        d = Delegation(atype=atype, delegation_id=did, pool_id=pool) if pool else Delegation(atype=atype, delegation_id=did)
        if det is not None:
            d.set_details(det)
        ds.add_delegations(d)
    return ds


def arm_graphml(t, gid):
    """a small aggregate: a server with a GPU and a NIC service, a switch, a link between their connection points; node `nn1`
    carries a label AND a capacity delegation for the same delegation id, `c1` a capacity delegation only, `cp1` a label
    delegation only, `cp2` delegations for a second delegation id; `cp2` is a stitch node"""
    import networkx as nx
    from fim.slivers.capacities_labels import Labels, Capacities
    from fim.slivers.delegations import DelegationType
    L, C = DelegationType.LABEL, DelegationType.CAPACITY
    d1, d2 = t.x("delegation-id", "del1"), t.x("delegation-id", "del2")
    lv = lambda s: t.x("label-value", s)
    n = lambda s: t.x("node-id", s)
    g = nx.Graph()

    def node(i, nid, cls, name, typ, **kw):
        props = {"GraphID": gid, "NodeID": n(nid), "Class": cls, "Name": t.x("name", name), "Type": typ, "StitchNode": "false"}
        props.update(kw)
        g.add_node(i, **props)
    node(1, "nn1", "NetworkNode", "srv1", "Server", Site=t.x("site", "RENC"),
         Capacities=Capacities(core=8, ram=32).to_json(), Labels=Labels(local_name=lv("srv1-host")).to_json(),
         LabelDelegations=_deleg(L, [(d1, None, Labels(local_name=lv("eth0")))]).to_json(),
         CapacityDelegations=_deleg(C, [(d1, None, Capacities(core=4))]).to_json(), Details=t.x("details", "a server"))
    node(2, "c1", "Component", "gpu1", "GPU", Model="RTX6000", Capacities=Capacities(unit=1).to_json(),
         CapacityDelegations=_deleg(C, [(d1, None, Capacities(unit=1))]).to_json(), Details=t.x("details", "a gpu"))
    node(3, "ns1", "NetworkService", "ns1", "OVS", Layer="L2")
    node(4, "cp1", "ConnectionPoint", "p1", "TrunkPort", Labels=Labels(local_name=lv("p1"), mac="00:11:22:33:44:55").to_json(),
         LabelDelegations=_deleg(L, [(d1, None, Labels(local_name=lv("p1-deleg"), vlan_range="100-200"))]).to_json())
    node(5, "l1", "Link", "l1", "Patch", Layer="L2")
    node(6, "cp2", "ConnectionPoint", "p2", "TrunkPort", StitchNode="true",
         LabelDelegations=_deleg(L, [(d2, None, Labels(local_name=lv("p2-deleg"), vlan_range="300-400"))]).to_json(),
         CapacityDelegations=_deleg(C, [(d2, None, Capacities(bw=10))]).to_json())
    node(7, "ns2", "NetworkService", "ns2", "MPLS", Layer="L2")
    node(8, "sw1", "NetworkNode", "sw1", "Switch", Site=t.x("site", "RENC"))
    for a, b, k in ((1, 2, "has"), (1, 3, "has"), (3, 4, "connects"), (4, 5, "connects"), (5, 6, "connects"), (7, 6, "connects"),
                    (8, 7, "has")):
        g.add_edge(a, b, Class=k)
    return "\n".join(nx.generate_graphml(g))


class World:
    """graph ids / node ids / names ... of one run, and the Neo4j objects to operate on"""

    def __init__(self, sh, t):
        self.sh, self.t = sh, t
        self.arm_id = t.x("graph-id", "armG")
        self.cbm_id = t.x("graph-id", "cbmG")
        self.other_id = t.x("graph-id", "otherG")
        self.adm_ids = {t.x("delegation-id", "del1"): t.x("adm-graph-id", "admG1"), t.x("delegation-id", "del2"): t.x("adm-graph-id", "admG2")}
        self.n = lambda s: t.x("node-id", s)
        sh.nx_imp.import_graph_from_string(graph_string=arm_graphml(t, self.arm_id), graph_id=self.arm_id)
        sh.nx_imp.import_graph_from_string(graph_string=arm_graphml(t, self.other_id), graph_id=self.other_id)

    def graph(self, cname, gid=None):
        K = self.sh.K
        gid = gid or self.arm_id
        if cname == "Neo4jARMGraph":
            return K[cname](graph=K["Neo4jPropertyGraph"](graph_id=gid, importer=self.sh.imp))
        return K[cname](graph_id=gid, importer=self.sh.imp)

    def make_adms(self):
        """(setup, statements discarded) the ARM's ADMs, through the library itself"""
        adms = self.graph("Neo4jARMGraph").generate_adms(delegation_guids=dict(self.adm_ids))
        self.sh.imp.driver.take()
        return adms

    def make_cbm(self, n=2):
        adms = self.make_adms()
        cbm = self.graph("Neo4jCBMGraph", self.cbm_id)
        for did in sorted(adms, reverse=True)[:n]:      # del2's ADM first: del1's has a node more (something is left to re-home)
            cbm.merge_adm(adm=self.sh.K["Neo4jADMGraph"](graph_id=adms[did].graph_id, importer=self.sh.imp))
        self.sh.imp.driver.take()
        return cbm, adms


# ------------------------------------------------------------------------------------------------------------
# the operations: every public method of the Neo4j-backed classes that runs on a graph, on the world above.
# name -> (setup or None, run); run(w, ctx) performs the operation (ctx = what setup returned)

def _pools(w, atype):
    from fim.slivers.capacities_labels import Labels, Capacities
    from fim.slivers.delegations import Pool, Pools, DelegationType
    t = w.t
    ps = Pools(atype=atype)
    p = Pool(atype=atype, pool_id=t.x("pool-id", "pool1"), delegation_id=t.x("delegation-id", "del1"),
             defined_on=w.n("l1"), defined_for=[w.n("l1"), w.n("sw1")])
    p.set_pool_details(Labels(local_name=t.x("label-value", "pooled")) if atype == DelegationType.LABEL else Capacities(bw=5))
    ps.add_pool(pool=p)
    ps.build_index_by_delegation_id()
    return ps


def ops():
    from fim.slivers.capacities_labels import Labels, Capacities
    from fim.slivers.delegations import DelegationType
    L, C = DelegationType.LABEL, DelegationType.CAPACITY
    PG, ARM, ADM, CBM, ASM = "Neo4jPropertyGraph", "Neo4jARMGraph", "Neo4jADMGraph", "Neo4jCBMGraph", "Neo4jASM"
    O = {}

    def op(name, run, setup=None):
        O[name] = (setup, run)
    d1 = lambda w: w.t.x("delegation-id", "del1")
    lv = lambda w, s: w.t.x("label-value", s)
    nm = lambda w, s: w.t.x("name", s)
    # ---- ARM (abc_arm.py)
    op("Neo4jARMGraph.generate_adms", lambda w, c: w.graph(ARM).generate_adms(delegation_guids=dict(w.adm_ids)))
    op("Neo4jARMGraph.generate_adms:fresh-ids", lambda w, c: w.graph(ARM).generate_adms())
    def catalog(w, c):
        arm = w.graph(ARM)
        arm.node_ids = arm.list_all_node_ids()      # (the method reads the attribute generate_adms sets)
        return arm.catalog_delegations()
    op("Neo4jARMGraph.catalog_delegations", catalog)
    for at in (L, C):
        op("Neo4jARMGraph.get_delegations:%s" % at.name, lambda w, c, at=at: [w.graph(ARM).get_delegations(node_id=w.n(x), delegation_type=at)
                                                                              for x in ("nn1", "c1", "cp1", "sw1")])
        op("Neo4jARMGraph.annotate_delegations_and_pools:%s" % at.name,
           lambda w, c, at=at: w.graph(ARM).annotate_delegations_and_pools(
               dels={w.n("ns1"): _deleg(at, [(d1(w), None, Labels(local_name=lv(w, "annot")) if at == L else Capacities(core=2))])},
               pools=_pools(w, at)))
    # ---- ADM (abc_adm.py)
    op("Neo4jADMGraph.rewrite_delegations", lambda w, adms: [w.graph(ADM, adms[k].graph_id).rewrite_delegations() for k in sorted(adms)],
       setup=lambda w: w.make_adms())
    op("Neo4jADMGraph.rewrite_delegations:real-id",
       lambda w, adms: [w.graph(ADM, adms[k].graph_id).rewrite_delegations(real_adm_id=w.t.x("adm-graph-id", "realADM")) for k in sorted(adms)],
       setup=lambda w: w.make_adms())
    # ---- CBM (abc_cbm.py, neo4j_cbm.py)
    op("Neo4jCBMGraph.merge_adm:first", lambda w, adms: w.graph(CBM, w.cbm_id).merge_adm(adm=w.graph(ADM, adms[sorted(adms)[1]].graph_id)),
       setup=lambda w: w.make_adms())
    op("Neo4jCBMGraph.merge_adm:second", lambda w, c: c[0].merge_adm(adm=w.graph(ADM, c[1][sorted(c[1])[0]].graph_id)),
       setup=lambda w: w.make_cbm(1))
    op("Neo4jCBMGraph.unmerge_adm", lambda w, c: c[0].unmerge_adm(graph_id=c[1][sorted(c[1])[0]].graph_id), setup=lambda w: w.make_cbm(2))
    op("Neo4jCBMGraph.unmerge_adm:last", lambda w, c: c[0].unmerge_adm(graph_id=c[1][sorted(c[1])[1]].graph_id), setup=lambda w: w.make_cbm(1))
    op("Neo4jCBMGraph.snapshot+rollback", lambda w, c: c[0].rollback(graph_id=c[0].snapshot()), setup=lambda w: w.make_cbm(1))
    op("Neo4jCBMGraph.get_delegations", lambda w, c: [c[0].get_delegations(node_id=w.n(x), adm_id=c[1][sorted(c[1])[0]].graph_id, delegation_type=at)
                                                      for x in ("nn1", "cp1") for at in (L, C)], setup=lambda w: w.make_cbm(2))
    op("Neo4jCBMGraph.get_bqm", lambda w, c: c[0].get_bqm(), setup=lambda w: w.make_cbm(1))
    # ---- every backend: sliver builders, adders, removers and walkers of abc_property_graph.py
    for b, x in (("node", "nn1"), ("component", "c1"), ("ns", "ns1"), ("interface", "cp1"), ("link", "l1")):
        op("Neo4jPropertyGraph.build_deep_%s_sliver" % b, lambda w, c, b=b, x=x: getattr(w.graph(PG), "build_deep_%s_sliver" % b)(node_id=w.n(x)))
    new = lambda w: w.graph(PG, w.t.x("graph-id", "newG"))

    def slivers(w):
        g = w.graph(PG, w.other_id)
        out = {"node": g.build_deep_node_sliver(node_id=w.n("nn1")), "ns": g.build_deep_ns_sliver(node_id=w.n("ns2")),
               "link": g.build_deep_link_sliver(node_id=w.n("l1"))}
        out["comp"] = list(out["node"].attached_components_info.devices.values())[0]
        out["ifs"] = list(out["ns"].interface_info.interfaces.values())[0]
        w.sh.imp.driver.take()
        return out
    op("Neo4jPropertyGraph.add_network_node_sliver", lambda w, s: new(w).add_network_node_sliver(sliver=s["node"]), setup=slivers)
    op("Neo4jPropertyGraph.add_component_sliver", lambda w, s: w.graph(PG).add_component_sliver(parent_node_id=w.n("sw1"), component=s["comp"]),
       setup=lambda w: _renamed(w, slivers(w), "comp"))
    op("Neo4jPropertyGraph.add_network_service_sliver",
       lambda w, s: w.graph(PG).add_network_service_sliver(parent_node_id=w.n("sw1"), network_service=s["ns"]), setup=lambda w: _renamed(w, slivers(w), "ns"))
    op("Neo4jPropertyGraph.add_interface_sliver", lambda w, s: w.graph(PG).add_interface_sliver(parent_node_id=w.n("ns1"), interface=s["ifs"]),
       setup=lambda w: _renamed(w, slivers(w), "ifs"))
    op("Neo4jPropertyGraph.add_network_link_sliver",
       lambda w, s: w.graph(PG).add_network_link_sliver(lsliver=s["link"], interfaces=[w.n("cp1"), w.n("cp2")]), setup=lambda w: _renamed(w, slivers(w), "link"))
    for m, x in (("remove_network_node_with_components_nss_cps_and_links", "nn1"), ("remove_component_with_nss_cps_and_links", "c1"),
                 ("remove_ns_with_cps_and_links", "ns1"), ("remove_cp_and_links", "cp1"), ("remove_network_link", "l1"),
                 ("find_peer_connection_points", "cp1"), ("get_all_child_connection_points", "cp1"),
                 ("get_all_node_or_component_connection_points", "nn1"), ("get_all_ns_or_link_connection_points", "l1")):
        op("Neo4jPropertyGraph." + m, lambda w, c, m=m, x=x: getattr(w.graph(PG), m)(w.n(x)) if m.startswith("r") or m.startswith("get_all")
           else getattr(w.graph(PG), m)(node_id=w.n(x)))
    for m in ("get_all_network_links", "get_all_network_nodes", "get_all_network_service_nodes", "validate_graph"):
        op("Neo4jPropertyGraph." + m, lambda w, c, m=m: getattr(w.graph(PG), m)())
    op("Neo4jPropertyGraph.get_parent", lambda w, c: w.graph(PG).get_parent(w.n("c1"), "has", "NetworkNode"))
    op("Neo4jPropertyGraph.clone_graph", lambda w, c: w.graph(PG).clone_graph(new_graph_id=w.t.x("graph-id", "cloneG")))
    op("Neo4jPropertyGraph.get_node_json_property_as_object",
       lambda w, c: [w.graph(PG).get_node_json_property_as_object(node_id=w.n("nn1"), prop_name=p) for p in ("Labels", "LabelDelegations", "Capacities")])
    # ---- ASM (abc_asm.py)
    asm = lambda w: w.graph(ASM)
    op("Neo4jASM.find_node_by_name", lambda w, c: asm(w).find_node_by_name(node_name=nm(w, "srv1"), label="NetworkNode"))
    op("Neo4jASM.find_node_by_name_as_child",
       lambda w, c: asm(w).find_node_by_name_as_child(node_name=nm(w, "gpu1"), label="Component", rel="has", parent_node_id=w.n("nn1")))
    op("Neo4jASM.find_component_by_name", lambda w, c: asm(w).find_component_by_name(parent_node_id=w.n("nn1"), component_name=nm(w, "gpu1")))
    op("Neo4jASM.find_ns_by_name", lambda w, c: asm(w).find_ns_by_name(parent_node_id=w.n("nn1"), nsname=nm(w, "ns1")))
    op("Neo4jASM.find_connection_point_by_name", lambda w, c: asm(w).find_connection_point_by_name(parent_node_id=w.n("ns1"), iname=nm(w, "p1")))
    op("Neo4jASM.find_child_connection_point_by_name",
       lambda w, c: asm(w).find_child_connection_point_by_name(parent_node_id=w.n("cp1"), iname=nm(w, "p1")))
    op("Neo4jASM.get_all_network_node_components", lambda w, c: asm(w).get_all_network_node_components(w.n("nn1")))
    op("Neo4jASM.get_all_network_node_or_component_nss", lambda w, c: asm(w).get_all_network_node_or_component_nss(w.n("nn1")))
    op("Neo4jASM.check_node_name", lambda w, c: asm(w).check_node_name(node_id=w.n("nn1"), label="NetworkNode", name=nm(w, "srv1")))
    mp = lambda w: dict(node_id=w.n("nn1"), to_graph_id=w.t.x("mapped-id", "bqmG"), to_node_id=w.t.x("mapped-id", "bqm-n1"))
    op("Neo4jASM.set_mapping", lambda w, c: asm(w).set_mapping(**mp(w)))
    op("Neo4jASM.get_mapping", lambda w, c: asm(w).get_mapping(node_id=w.n("nn1")),
       setup=lambda w: (asm(w).set_mapping(**mp(w)), w.sh.imp.driver.take()))
    # ---- importer
    gml = lambda w, gid="impG": arm_graphml(w.t, w.t.x("graph-id", gid))

    def to_file(w):
        fn = os.path.join(w.sh.tmp, "in.graphml")
        with open(fn, "w") as f:
            f.write(gml(w))
        return fn
    imp = lambda w: w.sh.imp
    op("Neo4jGraphImporter.import_graph_from_string", lambda w, c: imp(w).import_graph_from_string(graph_string=gml(w), graph_id=w.t.x("graph-id", "impG")))
    op("Neo4jGraphImporter.import_graph_from_string:fresh-id", lambda w, c: imp(w).import_graph_from_string(graph_string=gml(w)))
    op("Neo4jGraphImporter.import_graph_from_string_direct", lambda w, c: imp(w).import_graph_from_string_direct(graph_string=gml(w)))
    def transient(w, call):
        """the first APOC import of the operation fails (the driver raises): the retry path"""
        import fim.graph.neo4j_property_graph as npg
        state = {"failed": False}

        def answer(text, params):
            if not state["failed"] and w.sh.imp.driver.where[-1][2].endswith("._import_graph"):
                state["failed"] = True
                raise RuntimeError("transient import failure")
            return w.sh.server_view(text, params)
        w.sh.imp.driver.canned = answer
        orig = npg.time.sleep
        npg.time.sleep = lambda x: None
        try:
            return call()
        finally:
            npg.time.sleep = orig
    op("Neo4jGraphImporter.import_graph_from_string:transient-failure",
       lambda w, c: transient(w, lambda: imp(w).import_graph_from_string(graph_string=gml(w), graph_id=w.t.x("graph-id", "impG"))))
    op("Neo4jGraphImporter.import_graph_from_string_direct:transient-failure",
       lambda w, c: transient(w, lambda: imp(w).import_graph_from_string_direct(graph_string=gml(w))))
    op("Neo4jGraphImporter.import_graph_from_file", lambda w, fn: imp(w).import_graph_from_file(graph_file=fn, graph_id=w.t.x("graph-id", "impG")), setup=to_file)
    op("Neo4jGraphImporter.import_graph_from_file_direct", lambda w, fn: imp(w).import_graph_from_file_direct(graph_file=fn), setup=to_file)
    op("Neo4jGraphImporter.cast_graph", lambda w, c: imp(w).cast_graph(graph_id=w.arm_id))
    op("Neo4jGraphImporter.delete_graph", lambda w, c: imp(w).delete_graph(graph_id=w.arm_id))
    op("Neo4jGraphImporter.delete_all_graphs", lambda w, c: imp(w).delete_all_graphs())
    # ---- ONE graph handle used for a history of calls (round 7): what a handle learned from the database in an earlier call
    # (a read, an add) must not shape the text of a later one.  `<reader>+<every primitive>`
    for r in HANDLE_READERS:
        op("Neo4jPropertyGraph.%s+later-calls:one-handle" % r, lambda w, c, r=r: handle_history(w, r))
    op("Neo4jPropertyGraph.every-primitive+later-calls:one-handle", lambda w, c: handle_history(w, None))
    # ... a table shared by the handles of a class / kept in a module: the reads through one handle, the later calls through another
    for r in ("get_node_properties", "build_deep_node_sliver", "add_node"):
        op("Neo4jPropertyGraph.%s+later-calls:two-handles:one-handle" % r, lambda w, c, r=r: handle_history(w, r, two=True))
    # ... and the handles of the subclasses (their own primitives and the inherited ones)
    for cn in (ASM, CBM, ADM):
        op("%s.every-primitive+later-calls:one-handle" % cn, lambda w, c, cn=cn: handle_history(w, None, cname=cn))
        op("%s.get_node_properties+later-calls:one-handle" % cn, lambda w, c, cn=cn: handle_history(w, "get_node_properties", cname=cn))
    return O


# the calls that make a handle learn something about a node: reads of its properties / neighbourhood, existence checks, adding it
HANDLE_READERS = ["get_node_properties", "get_node_json_property_as_object", "build_deep_node_sliver", "get_first_neighbor", "node_exists",
                  "list_all_node_ids", "add_node", "update_node_property"]
LAST = ["merge_nodes", "delete_node", "delete_graph"]       # (they remove what the others work on)


def _handle_args(w, mname, f, node):
    """keyword arguments of a primitive of the generic graph, by parameter name; None: no argument of that name known.  VALUE
    arguments are the same strings in every world (what an argument does to the text of its own call is the argument sweep's
    business; here the question is what the handle learned from the database)"""
    table = {"node_id": w.n(node), "node_a": w.n(node), "node_b": w.n("c1"), "node_z": w.n("sw1"), "rel": "has", "kind": "has",
             "label": "NetworkNode", "node_label": "Component", "ntype": "Server", "name": "srv1", "node_name": "srv1",
             "prop_name": "Details", "prop_val": "rewritten", "props": {"Details": "rewritten twice"},
             "rel1": "has", "node1_label": "NetworkService", "rel2": "connects", "node2_label": "ConnectionPoint",
             "hops": [w.n("ns1")], "other_graph": w.graph("Neo4jPropertyGraph", w.other_id)}
    if mname == "get_node_json_property_as_object":
        table["prop_name"] = "Labels"
    if mname == "add_node":
        table["props"] = {"Name": "hh-added", "Type": "Server"}
    kw = {}
    for n, p in list(inspect.signature(f).parameters.items())[1:]:
        if n in table:
            kw[n] = table[n]
        elif p.default is inspect.Parameter.empty:
            return None
    return kw


_HANDLE_PRIMS = {}
_KNOWN_ARGS = {"node_id", "node_a", "node_b", "node_z", "rel", "kind", "label", "node_label", "ntype", "name", "node_name", "prop_name", "prop_val",
               "props", "rel1", "node1_label", "rel2", "node2_label", "hops", "other_graph"}


def handle_prims(cname="Neo4jPropertyGraph"):
    """the public methods the Neo4j classes themselves define (the statement-building side of the interface) that a handle of class
    `cname` has and whose arguments can be made up by name, destructive ones last"""
    if cname not in _HANDLE_PRIMS:
        K = _neo()
        found = []
        for n in dir(K[cname]):
            owner = [c for c in K[cname].__mro__ if n in c.__dict__][0]
            f = owner.__dict__[n]
            if owner not in K.values() or not inspect.isfunction(f) or n.startswith("_"):
                continue
            ps = list(inspect.signature(f).parameters.items())[1:]
            if all(k in _KNOWN_ARGS or p.default is not inspect.Parameter.empty for k, p in ps):
                found.append(n)
        _HANDLE_PRIMS[cname] = sorted(found, key=lambda n: (LAST.index(n) if n in LAST else -1, n))
    return _HANDLE_PRIMS[cname]


def handle_history(w, reader, cname="Neo4jPropertyGraph", two=False):
    """on ONE handle: the reader, then a primitive, for every primitive (the reader again before each: a primitive may make the handle
    forget); the node is one the store holds, or the one the reader adds.  `two`: the reader runs on a second handle of the same graph"""
    g = w.graph(cname)
    g_read = w.graph(cname) if two else g
    node = "hh-added" if reader == "add_node" else "nn1"
    prims = handle_prims(cname)

    def call(m, h=None):
        h = g if h is None else h
        f = getattr(type(h), m)
        kw = _handle_args(w, m, f, node)
        if kw is None:
            return
        try:
            getattr(h, m)(**kw)
        except Exception as ex:     # (the node is gone, the link does not exist, a stored string the library validates ...)
            errs.append("%d:%s" % (len(errs), type(ex).__name__))
    errs = []
    if reader is None:              # every primitive after every other one
        for m in [m for m in prims if m not in LAST] + prims:
            call(m)
    else:
        for m in prims:
            call(reader, g_read)
            call(m)
    if errs:                        # which calls failed is part of the outcome: runs are compared only when it is the same
        import zlib
        raise type("CallsFailed_%08x" % zlib.crc32(",".join(errs).encode()), (Exception,), {})()


def _renamed(w, s, which):
    """the sliver to add, under a node id / name the target graph does not have yet"""
    x = s[which]
    x.node_id = w.n("added-" + which)
    x.resource_name = w.t.x("name", "added-" + which)
    return s


# public methods that take no graph (pure converters) or are driven as direct calls of the statement-building primitives by the
# correspondence / argument sweep of harness/props/c19.py
NOT_ON_A_GRAPH = {"get_graph_id", "enumerate_graph_nodes", "enumerate_graph_nodes_to_string"}


def public_methods():
    """{Class.method} of every public method taking `self` of the Neo4j-backed classes (resolved through the MRO: the base
    classes' operations count as the subclass's)"""
    K = _neo()
    out = set()
    for cname, cls in K.items():
        for n, f in inspect.getmembers(cls, inspect.isfunction):
            if n.startswith("_") or n in NOT_ON_A_GRAPH:
                continue
            owner = [c for c in cls.__mro__ if n in c.__dict__][0]
            if isinstance(owner.__dict__[n], staticmethod):
                continue
            own_cls = [k for k, c in K.items() if n in c.__dict__]
            if cname != "Neo4jPropertyGraph" and n in dir(K["Neo4jPropertyGraph"]) and cname not in own_cls and cname != "Neo4jGraphImporter":
                continue        # inherited unchanged from the generic graph: listed there
            out.add("%s.%s" % (cname, n))
    return out


def run_op(prims, name, role=None, payload=""):
    """-> (recorded statements, where, error kind or None, unshadowed primitives, every string the store held before or after
    the operation or that was handed over as a parameter)"""
    setup, run = ops()[name]
    with Shadow(prims) as sh:
        sh.tok = Tok(role, payload)
        w = World(sh, sh.tok)
        try:
            ctx = setup(w) if setup else None
        except Exception as ex:     # the world cannot be brought into the state the operation starts from (a validated value)
            return None, [], "setup:" + type(ex).__name__, set(), set()
        sh.imp.driver.take()
        e = None
        known = sh.values()
        import uuid
        orig, cnt = uuid.uuid4, [0]

        def fixed():
            cnt[0] += 1
            return uuid.UUID(int=(0xC19 << 96) + cnt[0])
        uuid.uuid4 = fixed          # fresh graph ids / file names are the same in the runs that are compared
        try:
            run(w, ctx)
        except Exception as ex:
            e = type(ex).__name__
        finally:
            uuid.uuid4 = orig
        rec, where = sh.take()
        known |= sh.values()
        for _, _, p in rec:
            known.update(v for v in p.values() if isinstance(v, str))
        return rec, where, e, set(sh.unshadowed), known
