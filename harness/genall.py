"""Run every extractor once (used by setup.sh); prints a short report."""
import importlib, os, sys, json
import core
failed = 0
owners = {}
_lock = core.Lock()
_lock.__enter__()      # extractors and the baseline copy must not race with a check run on a patched worktree
for fn in sorted(os.listdir(os.path.join(core.VERIF, "harness", "props"))):
    if fn.startswith("c") and fn.endswith(".py"):
        mod = importlib.import_module("props." + fn[:-3])
        for g in getattr(mod, "GENERATORS", []):
            gname = "%s.%s" % (g.__module__.split(".")[-1], g.__name__)
            before = set(core.TOUCHED)
            try:
                r = g()
                print("gen %s.%s ok" % (fn[:-3], g.__module__))
                owners[gname] = sorted(set(owners.get(gname, [])) | {os.path.basename(p) for p in core.TOUCHED - before})
            except Exception as e:
                failed += 1
                print("gen %s.%s FAILED: %s" % (fn[:-3], g.__module__, e))
# the Generated files of the tree the framework was set up on are the baseline a check falls back to when an extractor
# does not recognise changed source (core.restore_baseline); a committed copy exists, refresh it when every extractor succeeded
if not failed:
    import shutil
    os.makedirs(core.BASELINE_DIR, exist_ok=True)
    for fn in sorted(os.listdir(core.GEN_DIR)):
        if fn.endswith(".lean"):
            shutil.copyfile(os.path.join(core.GEN_DIR, fn), os.path.join(core.BASELINE_DIR, fn))
    with open(os.path.join(core.BASELINE_DIR, "owners.json"), "w") as f:
        json.dump(owners, f, indent=1, sort_keys=True)
    print("baseline refreshed (%s)" % core.BASELINE_DIR)
_lock.__exit__()
sys.exit(0)   # an extraction failure is reported by the property's own check, not by setup
