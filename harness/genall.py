"""Run every extractor once (used by setup.sh); prints a short report."""
import importlib, os, sys, json
import core
failed = 0
for fn in sorted(os.listdir(os.path.join(core.VERIF, "harness", "props"))):
    if fn.startswith("c") and fn.endswith(".py"):
        mod = importlib.import_module("props." + fn[:-3])
        for g in getattr(mod, "GENERATORS", []):
            try:
                r = g()
                print("gen %s.%s ok" % (fn[:-3], g.__module__))
            except Exception as e:
                failed += 1
                print("gen %s.%s FAILED: %s" % (fn[:-3], g.__module__, e))
# the Generated files of the tree the framework was set up on are the baseline a check falls back to when an extractor
# does not recognise changed source (core.restore_baseline); a committed copy exists, refresh it when every extractor succeeded
if not failed:
    import shutil
    os.makedirs(core.BASELINE_DIR, exist_ok=True)
    for fn in sorted(os.listdir(core.GEN_DIR)):
        if fn.endswith(".lean"):
            shutil.copyfile(os.path.join(core.GEN_DIR, fn), os.path.join(core.BASELINE_DIR, fn))
    print("baseline refreshed (%s)" % core.BASELINE_DIR)
sys.exit(0)   # an extraction failure is reported by the property's own check, not by setup
