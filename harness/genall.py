"""Run every extractor once (used by setup.sh); prints a short report."""
import importlib, os, sys, json
import core
failed = 0
for fn in sorted(os.listdir(os.path.join(core.VERIF, "harness", "props"))):
    if fn.startswith("c") and fn.endswith(".py"):
        mod = importlib.import_module("props." + fn[:-3])
        for g in getattr(mod, "GENERATORS", []):
            try:
                r = g()
                print("gen %s.%s ok" % (fn[:-3], g.__module__))
            except Exception as e:
                failed += 1
                print("gen %s.%s FAILED: %s" % (fn[:-3], g.__module__, e))
sys.exit(0)   # an extraction failure is reported by the property's own check, not by setup
