"""Run every extractor once (used by setup.sh); prints a short report and refreshes the fallback baseline.

Each property's extractors run in a process of their own (some extractors probe the library by re-importing or patching its
modules; they must not see each other's leftovers), all under the framework lock so that the run cannot race with a check that
is rewriting Generated/ for a patched worktree."""
import json
import os
import shutil
import subprocess
import sys

import core

CHILD = r"""
import importlib, json, os, sys, traceback
import core
mod = importlib.import_module("props." + sys.argv[1])
out = {"owners": {}, "failed": []}
for g in getattr(mod, "GENERATORS", []):
    gname = "%s.%s" % (g.__module__.split(".")[-1], g.__name__)
    before = set(core.TOUCHED)
    try:
        g()
        out["owners"][gname] = sorted({os.path.basename(p) for p in core.TOUCHED - before})
    except Exception as e:
        out["failed"].append([gname, "%s: %s" % (type(e).__name__, str(e)[:300])])
print("@@" + json.dumps(out))
"""

failed = 0
owners = {}
with core.Lock():
    for fn in sorted(os.listdir(os.path.join(core.VERIF, "harness", "props"))):
        if not (fn.startswith("c") and fn.endswith(".py")):
            continue
        p = subprocess.run([sys.executable, "-c", CHILD, fn[:-3]], capture_output=True, text=True, env=dict(os.environ))
        line = [l for l in p.stdout.splitlines() if l.startswith("@@")]
        if not line:
            failed += 1
            print("gen %s CRASHED: %s" % (fn[:-3], (p.stderr or p.stdout)[-400:]))
            continue
        rep = json.loads(line[-1][2:])
        for gname, files in rep["owners"].items():
            owners[gname] = sorted(set(owners.get(gname, [])) | set(files))
            print("gen %s.%s ok" % (fn[:-3], gname))
        for gname, msg in rep["failed"]:
            failed += 1
            print("gen %s.%s FAILED: %s" % (fn[:-3], gname, msg))
    # The Generated files of the tree the framework was set up on are the baseline a check falls back to when an extractor does
    # not recognise changed source (core.restore_baseline); a committed copy exists, refresh it when every extractor succeeded.
    if not failed:
        os.makedirs(core.BASELINE_DIR, exist_ok=True)
        for fn in sorted(os.listdir(core.GEN_DIR)):
            if fn.endswith(".lean"):
                shutil.copyfile(os.path.join(core.GEN_DIR, fn), os.path.join(core.BASELINE_DIR, fn))
        with open(os.path.join(core.BASELINE_DIR, "owners.json"), "w") as f:
            json.dump(owners, f, indent=1, sort_keys=True)
        print("baseline refreshed (%s)" % core.BASELINE_DIR)
    else:
        print("baseline NOT refreshed: %d extractor(s) failed" % failed)
sys.exit(0)   # an extraction failure is reported by the property's own check, not by setup
