#!/bin/bash
# seedrun.sh <seeded-dir> [Cxx ...]
# Validates a seeded change and runs checks against it WITHOUT touching /repo or /verif:
#   scratch worktree of /repo HEAD + patch, scratch copy of /verif (incl. its lake build), VERIF_REPO pointing at the worktree.
# (The final confirmation against /repo itself — git -C /repo apply; ./check; git -C /repo checkout -- . — is seedfinal.sh.)
set -u
D="$(cd "$1" && pwd)"; shift
PROP=$(python3 -c "import json;print(json.load(open('$D/meta.json'))['property'])")
CHECKS="${*:-$PROP}"
W=/tmp/seed/run-$$; V=/tmp/seed/verif-$$; mkdir -p /tmp/seed
git -C /repo worktree add --detach "$W" HEAD >/dev/null 2>&1 || { echo "cannot create worktree"; exit 2; }
trap 'git -C /repo worktree remove --force "$W" >/dev/null 2>&1; git -C /repo worktree prune; rm -rf "$V"' EXIT
mkdir -p "$V"; git -C /verif archive HEAD | tar -x -C "$V"; rsync -a /verif/lean/.lake "$V"/lean/   # committed machinery + a copy of the build cache
( cd "$W" && PYTHONPATH="$W" /venv/bin/python "$D"/demo.py >/dev/null 2>&1 ); echo "demo on clean tree: rc=$? (want 0)"
git -C "$W" apply "$D/patch.diff" || { echo "patch does not apply"; exit 2; }
( cd "$W" && PYTHONPATH="$W" /venv/bin/python "$D"/demo.py >/dev/null 2>&1 ); echo "demo on changed tree: rc=$? (want non-zero)"
echo "pinned suite on changed tree: $(/venv/bin/python /verif/harness/baseline.py "$W" | head -1)"
cd "$V"
for c in $CHECKS; do
  out=$(VERIF_REPO="$W" ./check "$c" 2>&1); rc=$?
  echo "check $c on changed tree: rc=$rc | $(echo "$out" | grep -c '^VIOLATION') VIOLATION lines; $(echo "$out" | grep '^VIOLATION' | head -2 | sed 's/.*replay=//' | tr '\n' ' ') | $(echo "$out" | tail -1 | cut -c1-150)"
  for r in $(echo "$out" | grep '^VIOLATION' | head -2 | sed 's/.*replay=\([^ ]*\).*/\1/'); do
    python3 -c "import json;d=json.load(open('$r'));print('   replay:',d.get('kind'),d.get('signature') or d.get('link'),'|',str(d.get('what') or d.get('theorem'))[:140])"
  done
done
