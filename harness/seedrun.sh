#!/bin/bash
# seedrun.sh <seeded-dir> [Cxx ...]
# Applies <seeded-dir>/patch.diff to a scratch worktree of /repo HEAD (never to /repo itself while builders
# are active), runs the demo, then the given checks (default: the property in meta.json) against that
# worktree via VERIF_REPO, prints the outcome, and removes the worktree.
set -u
D="$(cd "$1" && pwd)"; shift
PROP=$(python3 -c "import json;print(json.load(open('$D/meta.json'))['property'])")
CHECKS="${*:-$PROP}"
W=/tmp/seed/run-$$; mkdir -p /tmp/seed
git -C /repo worktree add --detach "$W" HEAD >/dev/null 2>&1 || { echo "cannot create worktree"; exit 2; }
trap 'git -C /repo worktree remove --force "$W" >/dev/null 2>&1; git -C /repo worktree prune' EXIT
( cd "$W" && PYTHONPATH="$W" /venv/bin/python "$D"/demo.py >/dev/null 2>&1 ); echo "demo on clean tree: rc=$? (want 0)"
git -C "$W" apply "$D/patch.diff" || { echo "patch does not apply"; exit 2; }
( cd "$W" && PYTHONPATH="$W" /venv/bin/python "$D"/demo.py >/dev/null 2>&1 ); echo "demo on changed tree: rc=$? (want non-zero)"
echo "pinned suite on changed tree: $(/venv/bin/python /verif/harness/baseline.py "$W" | head -1)"
cd /verif
for c in $CHECKS; do
  out=$(VERIF_REPO="$W" ./check "$c" 2>&1); rc=$?
  echo "check $c on changed tree: rc=$rc | $(echo "$out" | grep '^VIOLATION' | head -3 | tr '\n' ';') $(echo "$out" | tail -1 | cut -c1-140)"
done
# restore generated tables / build for the real tree
for c in $CHECKS; do ./check "$c" >/dev/null 2>&1; echo "check $c back on /repo: rc=$?"; done
