"""C03 - "a FAILED call leaves the value unchanged" (mixed into props/c03.Oracle; correspondence lines `tt.seq`, `jf.seq`, `pi.seq`).

The property quantifies over every value "constructible through each class's public constructor/setters".  A setter / decoder /
copy-with-changes call that is REJECTED (raises) is part of such a construction sequence: the value object is used afterwards.
So for every codec class, after a call with invalid input raised,

  * value       the object's state (fields / text / entries) is what it was,
  * encoding    its encoding (or the fact that encoding raises, e.g. an unfinalized MaintenanceInfo) is what it was,
  * roundtrip   decode(encode(value)) is what it was - in particular the decoder still accepts the object's own encoding,
  * eq-hash     == / hash against a twin built before the call are what they were (classes that define them).

Failing calls tried, per class:
  TypedTuple (4 classes)  parse_from_string with an unknown type / no separator / None; constructing another tuple with a bad type
  JSONField (7 classes)   _set_fields on the existing instance (one bad keyword; a bad keyword AFTER good ones; forgiving or not),
                          update(x, good..., bad) (the original), Cls(good..., bad) and from_json(text with a bad later field)
                          next to an existing instance
  Tags                    Tags(good + [bad]) / from_json(bad) next to an existing instance
  JSONData (3 classes)    Cls(too long / not JSON / not serialisable) next to an existing instance (==, hash against a twin)
  Gateway                 Gateway(labels without subnet / with a malformed mac): the existing gateway and the ARGUMENT labels
  PathInfo / ERO          set(payload of the wrong kind), Path.set_symmetric(not a list), from_json(damaged text)
  MaintenanceInfo         add / rem / pop on a finalized record, rem / pop of an absent name, add under an unhashable name, to_json / iter
                          before finalize, from_json(bad state / bad date), MaintenanceEntry(bad date)
A call that does not raise is not a failing call: it is only counted (`oracle:fail:accepted:*`).

Signatures: C03:<Class>:failed-call:<op>:<value-changed | encoding-changed | roundtrip-broken | eq-hash-changed>.
`JSONField._set_fields(**several)` checks and assigns keyword by keyword (Model/CodecFail.lean `setFieldsIP`, theorem
`setfields_failed_prefix`): a rejected call keeps exactly the keywords before the rejected one -
C03:JSONField:failed-call:_set_fields:earlier-keywords-kept (known finding; anything else it leaves behind is a violation).
"""
import copy
import json
from datetime import datetime


def _P():
    from props import c03
    return c03


ASPECTS = ["value", "encoding", "roundtrip", "eq-hash"]


def _try(fn):
    try:
        return ["ok", fn()]
    except Exception as e:
        return ["err", _P().kind(e)]


class FailOracle:
    # ------------------------------------------------------------------ the common part
    def _attempt(self, cname, op, case, observe, call, detail=None):
        """observe() -> {aspect: canonical}; call() is expected to raise.  Returns the exception kind or None (accepted)."""
        P = _P()
        before = observe()
        try:
            call()
        except Exception as e:
            raised = P.kind(e)
        else:
            self.res.count("oracle:fail:accepted:%s:%s" % (cname, op))
            return None
        self.res.count("oracle:fail:rejected:%s:%s" % (cname, op))
        after = observe()
        for a in ASPECTS:
            if a in before and before[a] != after.get(a):
                why = "roundtrip-broken" if a == "roundtrip" else a + "-changed"
                if a == "value" and before.get("roundtrip") != after.get("roundtrip") and (after.get("roundtrip") or ["ok"])[0] == "err":
                    why = "roundtrip-broken"          # the changed value cannot even be decoded from its own encoding
                self.bad("%s:failed-call:%s:%s" % (cname, op, why),
                         "%s raised %s and left the object changed (%s)%s" % (op, raised, a, "" if detail is None else " - " + str(detail)),
                         case, expected=P.srepr(before[a]), observed=P.srepr(after.get(a)))
                break
        return raised

    # ------------------------------------------------------------------ typed tuples
    def fail_tt(self, cname, init, bad):
        P = _P()
        tt = self.M[6]
        C = getattr(tt, cname)
        case = {"kind": "fail_tt", "class": cname, "init": init, "bad": bad}
        def build():
            return C(atype=init[1], aval=P.from_wire(init[2])) if init[0] == "new" else C(fromstring=init[1])
        try:
            t = build()
            twin = C(atype=t.type, aval=t.val)
        except Exception as e:
            self.bad("typed_tuple:raises:%s" % P.kind(e), "a valid typed tuple cannot be built", case)
            return
        types0 = list(P.tuple_types(tt, cname))

        def observe():
            enc = _try(t.get_as_string)
            return {"value": [t.type, P.to_wire(t.val), type(t.val).__name__, repr(t)],
                    "encoding": enc,
                    "roundtrip": _try(lambda: (lambda y: [y.type, P.to_wire(y.val)])(C(fromstring=t.get_as_string()))),
                    "eq-hash": [_try(lambda: t.check_type(twin)), t.lv.get_types(t.category) == types0]}
        for s in bad:
            t = build()          # every rejected call is judged on a tuple of its own (the replay runs it alone)
            self._attempt("typed_tuple", "parse_from_string", dict(case, bad=[s]), observe, lambda s=s: t.parse_from_string(s), detail=repr(s))
        # ... and as one history: rejected calls one after the other on the same tuple
        t = build()
        for s in bad:
            if self._attempt("typed_tuple", "parse_from_string", case, observe, lambda s=s: t.parse_from_string(s), detail=repr(s)) is None:
                t = build()
        # a rejected construction of ANOTHER tuple (the type table is shared by the class)
        for bt in ["nope", "", t.type.upper() if t.type.upper() != t.type else t.type + "s"]:
            self._attempt("typed_tuple", "constructor", dict(case, bad=[bt]), observe, lambda bt=bt: C(atype=bt, aval="x"), detail=repr(bt))
            self._attempt("typed_tuple", "constructor-fromstring", dict(case, bad=[bt]), observe, lambda bt=bt: C(fromstring=bt + ":x"), detail=repr(bt))

    # ------------------------------------------------------------------ JSONField
    def fail_jf(self, cname, kw, calls):
        """calls: [[op, forgiving, [[k, v]...]]], op in set / update / ctor / from_json"""
        P = _P()
        cl = self.M[0]
        C = getattr(cl, cname)
        case = {"kind": "fail_jf", "class": cname, "kw": P.to_wire(kw), "calls": P.to_wire(calls)}
        try:
            x = C(**copy.deepcopy(kw))
            twin = C(**copy.deepcopy(kw))
        except Exception as e:
            self.bad("%s:construct-raises:%s" % (cname, P.kind(e)), "constructor rejects a value of the documented domain", case)
            return
        has_eq = C.__eq__ is not object.__eq__
        fresh0 = copy.deepcopy(C().__dict__)
        snap0 = copy.deepcopy(x.__dict__)

        def observe():
            return {"value": [P.to_wire(copy.deepcopy(x.__dict__)), [type(v).__name__ for v in x.__dict__.values()], P.to_wire(C().__dict__) == P.to_wire(fresh0)],
                    "encoding": [_try(x.to_json), _try(lambda: P.to_wire(x.to_dict())), _try(lambda: str(x))],
                    "roundtrip": _try(lambda: (lambda y: None if y is None else P.to_wire(y.__dict__))(C.from_json(x.to_json()))),
                    "eq-hash": _try(lambda: [x == twin, twin == x]) if has_eq else None}
        for op, fg, pairs in calls:
            pairs = [(k, copy.deepcopy(v)) for k, v in pairs]
            kwargs = dict(pairs)
            sub = dict(case, calls=P.to_wire([[op, fg, [list(p) for p in pairs]]]))
            x.__dict__.clear()
            x.__dict__.update(copy.deepcopy(snap0))          # every call is judged on the value as constructed
            if op == "set":
                if len(pairs) <= 1:
                    self._attempt(cname, "_set_fields", sub, observe, lambda: x._set_fields(forgiving=fg, **kwargs))
                    continue
                # several keywords: which one is rejected, and what the accepted ones before it make of the value
                before = observe()
                snap = copy.deepcopy(x.__dict__)
                probe, j = C.update(x), None
                for i, (k, v) in enumerate(pairs):
                    try:
                        probe._set_fields(forgiving=fg, **{k: copy.deepcopy(v)})
                    except Exception:
                        j = i
                        break
                try:
                    x._set_fields(forgiving=fg, **kwargs)
                except Exception as e:
                    raised = P.kind(e)
                else:
                    self.res.count("oracle:fail:accepted:%s:_set_fields" % cname)
                    continue
                self.res.count("oracle:fail:rejected:%s:_set_fields" % cname)
                after = observe()
                if after == before:
                    continue
                prefix_only = j is not None and P.to_wire(copy.deepcopy(x.__dict__)) == P.to_wire(copy.deepcopy(probe.__dict__)) and \
                    set(k for k in snap if P.to_wire(snap[k]) != P.to_wire(x.__dict__[k])) <= set(k for k, _ in pairs[:j])
                if (after["roundtrip"] or ["ok"])[0] == "err" or (before["roundtrip"][0] == "ok" and after["roundtrip"][0] == "ok" and
                                                                  after["roundtrip"][1] != after["value"][0] and before["roundtrip"][1] == before["value"][0]):
                    self.bad("%s:failed-call:_set_fields:roundtrip-broken" % cname,
                             "_set_fields raised %s and left a value that does not decode from its own encoding to itself" % raised, sub,
                             expected=P.srepr(before["value"]), observed=P.srepr(after["value"]))
                elif prefix_only:
                    self.bad("JSONField:failed-call:_set_fields:earlier-keywords-kept",
                             "%s._set_fields raised %s on keyword %r and kept the keywords before it" % (cname, raised, pairs[j][0]), sub,
                             expected=P.srepr(before["value"][0]), observed=P.srepr(after["value"][0]))
                else:
                    self.bad("%s:failed-call:_set_fields:value-changed" % cname,
                             "_set_fields raised %s and left the object changed by more than the keywords before the rejected one" % raised, sub,
                             expected=P.srepr(before["value"]), observed=P.srepr(after["value"]))
            elif op == "update":
                self._attempt(cname, "update", sub, observe, lambda: C.update(x, **kwargs))
            elif op == "ctor":
                self._attempt(cname, "constructor", sub, observe, lambda: C(**kwargs))
            elif op == "from_json":
                text = json.dumps(dict((k, v) for k, v in pairs)) if not isinstance(fg, str) else fg
                self._attempt(cname, "from_json", sub, observe, lambda: C.from_json(text))

    # ------------------------------------------------------------------ Tags
    def fail_tags(self, ts, bad):
        P = _P()
        tg = self.M[1]
        case = {"kind": "fail_tags", "tags": ts, "bad": P.to_wire(bad)}
        x = tg.Tags(list(ts))
        pat = tg.Tags.compiled_pattern.pattern

        def observe():
            return {"value": [list(x.tags), list(iter(x)), tg.Tags.compiled_pattern.pattern == pat], "encoding": [_try(x.to_json), str(x)],
                    "roundtrip": _try(lambda: list(tg.Tags.from_json(x.to_json()).tags))}
        for b in bad:
            self._attempt("Tags", "constructor", dict(case, bad=P.to_wire([b])), observe, lambda b=b: tg.Tags(list(ts) + [b]))
            self._attempt("Tags", "constructor-varargs", dict(case, bad=P.to_wire([b])), observe, lambda b=b: tg.Tags(*(list(ts) + [b])))
            self._attempt("Tags", "from_json", dict(case, bad=P.to_wire([b])), observe,
                          lambda b=b: tg.Tags.from_json(b if isinstance(b, str) and b[:1] in "{[x" else json.dumps(list(ts) + [b])))

    # ------------------------------------------------------------------ JSONData
    def fail_jd(self, cname, text, bad):
        P = _P()
        jd = self.M[2]
        C = getattr(jd, cname)
        case = {"kind": "fail_jd", "class": cname, "text": text, "bad": bad}
        x, twin = C(text), C(text)

        def observe():
            return {"value": [P.srepr(x.data), x._data], "encoding": [x.json, str(x)], "roundtrip": _try(lambda: P.srepr(C(x.json).data)),
                    "eq-hash": [x == twin, twin == x, hash(x) == hash(twin)]}
        for how, b in bad:
            if how == "text":
                arg = b
            elif how == "long":
                arg = '"' + "x" * (C.MAX_SIZE + b) + '"'
            elif how == "longobj":
                arg = ["x" * (C.MAX_SIZE + b)]
            else:
                arg = {"set": {1, 2}, "obj": object(), "bytes": b"x", "nested": {"a": [object()]}}[b]
            self._attempt(cname, "constructor", dict(case, bad=[[how, b]]), observe, lambda arg=arg: C(arg))

    # ------------------------------------------------------------------ Gateway
    def fail_gw(self, kw, bad):
        P = _P()
        cl, gw = self.M[0], self.M[3]
        case = {"kind": "fail_gw", "kw": kw, "bad": bad}
        g = gw.Gateway(cl.Labels(**kw))
        for b in bad:
            lab = cl.Labels(**{k: v for k, v in b.items() if not k.startswith("!")})
            for k, v in b.items():
                if k.startswith("!"):
                    lab.__dict__[k[1:]] = v          # a value the validating setter would not have accepted
            arg0 = copy.deepcopy(lab.__dict__)

            def observe():
                return {"value": [None if g.lab is None else P.to_wire(copy.deepcopy(g.lab.__dict__)), g.gateway, g.subnet, g.mac,
                                  P.to_wire(lab.__dict__) == P.to_wire(arg0)],
                        "encoding": [_try(g.to_json), _try(lambda: str(g))],
                        "roundtrip": _try(lambda: P.to_wire(gw.Gateway.from_json(g.to_json()).lab.__dict__))}
            self._attempt("Gateway", "constructor", dict(case, bad=[b]), observe, lambda: gw.Gateway(lab))
        for text in ['{"ipv4": "1.2.3.4"}', '{"mac": "00:11:22:33:44:55"}', "{bad", '{"ipv4_subnet": 5, "ipv4": "1.2.3.4"}']:
            def observe():
                return {"value": P.to_wire(copy.deepcopy(g.lab.__dict__)), "encoding": _try(g.to_json),
                        "roundtrip": _try(lambda: P.to_wire(gw.Gateway.from_json(g.to_json()).lab.__dict__))}
            self._attempt("Gateway", "from_json", dict(case, bad=[text]), observe, lambda: gw.Gateway.from_json(text))

    # ------------------------------------------------------------------ PathInfo / ERO
    def fail_pi(self, ero, ptype, payload, bad):
        P = _P()
        pi = self.M[4]
        cname = "ERO" if ero else "PathInfo"
        K = pi.ERO if ero else pi.PathInfo
        case = {"kind": "fail_pi", "ero": ero, "type": ptype, "payload": P.to_wire(payload), "bad": P.to_wire(bad)}
        def build():
            p = K(pi.PathRepresentationType[ptype])
            q = None
            if payload is not None:
                if ptype == "Path":
                    q = pi.Path()
                    q.set(a2z=copy.deepcopy(payload[0]), z2a=copy.deepcopy(payload[1]))
                    p.set(q)
                else:
                    p.set(payload)
            return p, q
        p, q = build()

        def observe():
            return {"value": [P.pi_wire(pi, p), None if q is None else [P.to_wire(q.a2z), P.to_wire(q.z2a)], p.payload is q or q is None],
                    "encoding": [_try(p.to_json), _try(lambda: str(p))],
                    "roundtrip": _try(lambda: (lambda y: None if y is None else P.pi_wire(pi, y))(K.from_json(p.to_json())))}
        for b in bad:
            how, v = b
            sub = dict(case, bad=P.to_wire([b]))
            p, q = build()          # every rejected call is judged on an object of its own
            if how == "set":
                arg = pi.Path() if v == "<Path>" else v
                self._attempt(cname, "set", sub, observe, lambda arg=arg: p.set(arg), detail=repr(v))
            elif how == "symmetric" and q is not None:
                self._attempt(cname, "Path.set_symmetric", sub, observe, lambda v=v: q.set_symmetric(v), detail=repr(v))
            elif how == "from_json":
                self._attempt(cname, "from_json", sub, observe, lambda v=v: K.from_json(v), detail=repr(v))
            elif how == "from_dict":
                self._attempt(cname, "Path.from_dict", sub, observe, lambda v=v: pi.Path.from_dict(v), detail=repr(v))

    # ------------------------------------------------------------------ MaintenanceInfo
    def fail_mi(self, entries, finalized, ops):
        P = _P()
        mm = self.M[5]
        case = {"kind": "fail_mi", "entries": entries, "finalized": finalized, "ops": ops}
        def build():
            m = mm.MaintenanceInfo()
            for nm, w in entries:
                m.add(nm, P.entry_build(mm, w))
            if finalized:
                m.finalize()
            return m
        m = build()

        def observe():
            return {"value": P.mi_wire(m), "encoding": [_try(m.to_json), _try(m.list_names), _try(lambda: [[k, P.entry_wire(e)] for k, e in m.list_details()])],
                    "roundtrip": _try(lambda: P.mi_wire(mm.MaintenanceInfo.from_json(m.to_json()))) if m._lock else None}
        for op in ops:
            sub = dict(case, ops=[op])
            m = build()
            if op[0] == "add":
                name = [] if op[1] == "<unhashable>" else op[1]
                self._attempt("MaintenanceInfo", "add", sub, observe, lambda: m.add(name, P.entry_build(mm, op[2])))
            elif op[0] == "rem":
                self._attempt("MaintenanceInfo", "rem", sub, observe, lambda: m.rem(op[1]))
            elif op[0] == "pop":
                self._attempt("MaintenanceInfo", "pop", sub, observe, lambda: m.pop(op[1]))
            elif op[0] == "enc":
                self._attempt("MaintenanceInfo", "to_json", sub, observe, lambda: m.to_json())
            elif op[0] == "iter":
                self._attempt("MaintenanceInfo", "iter", sub, observe, lambda: list(m.iter()))
            elif op[0] == "from_json":
                self._attempt("MaintenanceInfo", "from_json", sub, observe, lambda: mm.MaintenanceInfo.from_json(op[1]))
            elif op[0] == "entry":
                self._attempt("MaintenanceInfo", "MaintenanceEntry", sub, observe, lambda: mm.MaintenanceEntry(*op[1]))

    def run_fail_case(self, c):
        P = _P()
        k = c["kind"]
        if k == "fail_tt":
            self.fail_tt(c["class"], c["init"], c["bad"])
        elif k == "fail_jf":
            self.fail_jf(c["class"], P.from_wire(c["kw"]), [[op, fg, [tuple(p) for p in pairs]] for op, fg, pairs in P.from_wire(c["calls"])])
        elif k == "fail_tags":
            self.fail_tags(c["tags"], P.from_wire(c["bad"]))
        elif k == "fail_jd":
            self.fail_jd(c["class"], c["text"], c["bad"])
        elif k == "fail_gw":
            self.fail_gw(c["kw"], c["bad"])
        elif k == "fail_pi":
            self.fail_pi(c["ero"], c["type"], P.from_wire(c["payload"]), [tuple(b) for b in P.from_wire(c["bad"])])
        elif k == "fail_mi":
            self.fail_mi([tuple(e) for e in c["entries"]], c["finalized"], c["ops"])
        else:
            return False
        return True


def fail_group(case):
    k = case["kind"]
    if k in ("fail_jf", "fail_jd"):
        return case["class"]
    return {"fail_tt": "TypedTuple", "fail_tags": "Tags", "fail_gw": "Gateway", "fail_mi": "MaintenanceInfo"}.get(k) or ("ERO" if case.get("ero") else "PathInfo")


# --------------------------------------------------------------------------
# cases

BAD_JD = [["text", "{bad"], ["text", "{'a': 1}"], ["text", "[1,"], ["long", 1], ["long", 100], ["longobj", 0], ["py", "set"], ["py", "obj"], ["py", "bytes"],
          ["py", "nested"]]
BAD_TAGS = ["", "has space", "x" * 256, "é!", 5, None, ["nested"], "{not json"]


def bad_pairs(P, cl, C, rng, n_good, where="last"):
    """keyword pairs with distinct keys: n_good domain values and ONE keyword the setter rejects (unknown field, or a value the class's
    type guard refuses; for Labels also a value its validators refuse), placed last / first / in the middle"""
    names = list(C().__dict__)
    good = []
    for f in rng.sample(names, min(n_good, len(names) - 1)):
        v = P.domain_value(cl, C, f, rng)
        if v is not None:
            good.append((f, v))
    free = [f for f in names if f not in [k for k, _ in good]]
    r = rng.random()
    junk = [j for j in P.JUNK if not P.passes_guard(C, j) and j is not None]
    if r < 0.35 or not free or not junk:
        ok = [j for j in P.JUNK if P.passes_guard(C, j)]
        bad = ("no_such_field", rng.choice(ok) if ok else "x")
    elif r < 0.85 or C.__name__ != "Labels":
        bad = (rng.choice(free), rng.choice(junk))
    else:
        f = rng.choice([f for f in free if f in ("vlan", "mac", "ipv4", "asn", "bdf")] or free)
        bad = (f, "not a valid value!")
    i = {"last": len(good), "first": 0}.get(where, rng.randint(0, len(good)))
    return good[:i] + [bad] + good[i:]


def fail_battery(M, B):
    """deterministic failing-call cases, appended to the battery of each group"""
    P = _P()
    cl, tg, jd, gw, pi, mm, tt = M
    import random
    rng = random.Random("c03-fail-battery")
    for C in P.jf_classes(cl):
        cn = C.__name__
        corners = P.corner_kwargs(cl, C)
        for kw in [corners[1], {}]:
            calls = []
            for where in ("last", "first", "middle"):
                for n_good in (0, 1, 2, 3):
                    for op in ("set", "update", "ctor", "from_json"):
                        pairs = bad_pairs(P, cl, C, rng, n_good, where)
                        calls.append([op, False, [list(p) for p in pairs]])
                        if op == "set" and n_good:
                            calls.append([op, True, [list(p) for p in bad_pairs(P, cl, C, rng, n_good, where)]])
            calls.append(["from_json", "{not json", []])
            calls.append(["from_json", "[1, 2]", []])
            B[cn].append({"kind": "fail_jf", "class": cn, "kw": P.to_wire(kw), "calls": P.to_wire(calls)})
    for cname in P.TT:
        types = P.tuple_types(tt, cname)
        for t in types[:2] + types[-1:]:
            bad = ["nope:v", t + "s:200", t.upper() + ":x" if t.upper() != t else t + "_:x", " " + t + ":x", "nocolon", "", ":x", t, None]
            B["TypedTuple"].append({"kind": "fail_tt", "class": cname, "init": ["from", t + ":100"], "bad": bad})
            B["TypedTuple"].append({"kind": "fail_tt", "class": cname, "init": ["new", t, "a:b"], "bad": bad})
        if cname == "Capacity":
            B["TypedTuple"].append({"kind": "fail_tt", "class": cname, "init": ["new", types[0], 7], "bad": ["cpus:4", "nocolon", None]})
    for ts in [["a"], [], ["a", "tag-1", "é"]]:
        B["Tags"].append({"kind": "fail_tags", "tags": ts, "bad": P.to_wire(BAD_TAGS)})
    for cname in ("MeasurementData", "UserData", "LayoutData"):
        for text in ['{"a": 1}', "{}", '[1, {"b": [2.5, null]}]']:
            B[cname].append({"kind": "fail_jd", "class": cname, "text": text, "bad": BAD_JD})
    v4 = dict(ipv4_subnet="192.168.1.0/24", ipv4="192.168.1.1")
    v6 = dict(ipv6_subnet="2001:db8::/48", ipv6="2001:db8::1")
    badgw = [{"ipv4": "1.2.3.4"}, {"ipv6_subnet": "::/0"}, {"mac": "00:11:22:33:44:55"}, {}, dict(v4, **{"!mac": "zz"}), dict(v6, **{"!mac": 5}),
             dict(v4, **{"!mac": ["00:11:22:33:44:55", "bad"]}), {"ipv4_subnet": "10.0.0.0/8", "!ipv4": 7}]
    for kw in [v4, dict(v6, mac="aA:bB:cC:dD:eE:fF")]:
        B["Gateway"].append({"kind": "fail_gw", "kw": kw, "bad": badgw})
    for ero in (False, True):
        g = "ERO" if ero else "PathInfo"
        badp = [["set", "g"], ["set", None], ["set", ["a"]], ["set", 5], ["set", {"a2z": [], "z2a": []}], ["symmetric", None], ["symmetric", "abc"],
                ["symmetric", ("a", "b")], ["from_json", "{bad"], ["from_json", '{"type": "Path", "payload": {"a2z": []}}'],
                ["from_json", '{"type": "Path", "payload": "g"}'], ["from_json", "[1]"], ["from_dict", {"a2z": []}], ["from_dict", ["a"]]]
        for payload in [None, [["a", "b"], ["b", "a"]], [[], None]]:
            B[g].append({"kind": "fail_pi", "ero": ero, "type": "Path", "payload": P.to_wire(payload), "bad": P.to_wire(badp)})
        badg = [["set", "<Path>"], ["set", None], ["set", 5], ["set", ["g"]], ["from_json", "{bad"], ["from_json", "5"]]
        for payload in [None, "graph-1"]:
            B[g].append({"kind": "fail_pi", "ero": ero, "type": "Graph", "payload": payload, "bad": P.to_wire(badg)})
    e1 = ["Maint", P.DATES[3].isoformat(), None]
    e2 = ["Active", None, P.DATES[1].isoformat()]
    locked = [["add", "zz", e2], ["add", "n1", e2], ["rem", "n1"], ["pop", "n1"], ["rem", "absent"], ["pop", "absent"], ["add", "<unhashable>", e2],
              ["from_json", '{"n": {"state": "Active", "deadline": "yesterday"}}'], ["from_json", "{bad"], ["from_json", '{"n": 5}'],
              ["entry", ["Active", "yesterday", None]], ["entry", ["Active", None, "2024-13-01"]]]
    unlocked = [["rem", "absent"], ["pop", "absent"], ["add", "<unhashable>", e2], ["enc"], ["iter"], ["from_json", '{"n": {"state": "Active", "deadline": 5}}'],
                ["entry", ["Active", "yesterday", None]]]
    for es in [[["n1", e1]], [], [["n1", e1], ["é", e2]]]:
        B["MaintenanceInfo"].append({"kind": "fail_mi", "entries": es, "finalized": True, "ops": locked})
        B["MaintenanceInfo"].append({"kind": "fail_mi", "entries": es, "finalized": False, "ops": unlocked})


def fail_random(M, rng, n):
    P = _P()
    cl, tg, jd, gw, pi, mm, tt = M
    out = []
    classes = P.jf_classes(cl)
    for i in range(max(10, n // 12)):
        C = rng.choice(classes)
        kw = P.domain_kwargs(cl, C, rng)
        calls = []
        for _ in range(rng.choice([1, 2, 4])):
            op = rng.choice(["set", "set", "update", "ctor", "from_json"])
            calls.append([op, op == "set" and rng.random() < 0.3, [list(p) for p in bad_pairs(P, cl, C, rng, rng.choice([0, 1, 2, 3]), rng.choice(["last", "first", "middle"]))]])
        out.append({"kind": "fail_jf", "class": C.__name__, "kw": P.to_wire(kw), "calls": P.to_wire(calls)})
    TV = ["x", "", "a:b", ":", " lead", "trail ", "é", "5"]
    for i in range(max(10, n // 25)):
        cname = rng.choice(list(P.TT))
        types = P.tuple_types(tt, cname)
        t = rng.choice(types)
        o = rng.choice(types)
        bad = [rng.choice(["nope", o + "s", o.upper() if o.upper() != o else "X" + o, o + " ", " " + o, ""]) + ":" + rng.choice(TV) for _ in range(rng.choice([1, 2, 3]))]
        bad += [rng.choice(["nocolon", "", t, None])]
        init = ["from", t + ":" + rng.choice(TV[:4])] if rng.random() < 0.5 else ["new", t, rng.choice(TV)]
        out.append({"kind": "fail_tt", "class": cname, "init": init, "bad": bad})
    return out


# --------------------------------------------------------------------------
# correspondence: histories with rejected steps (the reply carries the state after EVERY step)

def impl_seq(M, r):
    P = _P()
    cl, tg, jd, gw, pi, mm, tt = M
    op = r[0]
    if op == "tt.seq":
        C = getattr(tt, r[1])
        init = r[2]
        t = C(atype=init[1], aval=P.from_wire(init[2])) if init[0] == "new" else C(fromstring=init[1])

        def shown():
            return [t.type, P.to_wire(t.val), t.get_as_string()]
        out = []
        first = shown()
        for s in r[3]:
            try:
                t.parse_from_string(s)
                e = None
            except Exception as ex:
                e = P.kind(ex)
            out.append([e, shown()])
        return [first, out]
    if op == "jf.seq":
        C = getattr(cl, r[1])
        x = C(**{k: P.from_wire(v) for k, v in r[2]})
        first = P.show(x)
        out = []
        for fg, pairs in r[3]:
            try:
                x._set_fields(forgiving=fg, **{k: P.from_wire(v) for k, v in pairs})
                e = None
            except Exception as ex:
                e = P.kind(ex)
            out.append([e, P.show(x)])
        return [first, out]
    if op == "pi.seq":
        p = P.pi_build(pi, r[2], r[1])

        def shown():
            try:
                enc = ["ok", p.to_json()]
            except Exception as ex:
                enc = ["err", P.kind(ex)]
            return [P.pi_wire(pi, p), enc]
        first = shown()
        out = []
        for pl in r[3]:
            if pl is None:
                arg = None
            elif "path" in pl:
                arg = pi.Path()
                arg.set(a2z=P.from_wire(pl["path"][0]), z2a=P.from_wire(pl["path"][1]))
            else:
                arg = P.from_wire(pl["raw"])
            try:
                p.set(arg)
                e = None
            except Exception as ex:
                e = P.kind(ex)
            out.append([e, shown()])
        return [first, out]
    raise ValueError(op)


def seq_requests(M, rng, n):
    P = _P()
    cl, tg, jd, gw, pi, mm, tt = M
    reqs = []
    TV = ["x", "", "a:b", ":", " lead", "trail ", "é", "5"]
    for cname in P.TT:
        types = P.tuple_types(tt, cname)
        t = types[0]
        # the demo of seeded C03-r4-3 and its relatives: a rejected re-parse between accepted ones
        reqs.append(["tt.seq", cname, ["from", t + ":100"], [t + "s:200", "nocolon", types[-1] + ":v", "nope:x", "", ":x", t.upper() + ":y"]])
        reqs.append(["tt.seq", cname, ["new", t, "a:b"], ["nope:x"]])
        reqs.append(["tt.seq", cname, ["new", types[-1], 7 if cname == "Capacity" else "v"], [" " + t + ":x", t + " :x", t + ":x"]])
    for i in range(max(8, n // 15)):
        cname = rng.choice(list(P.TT))
        types = P.tuple_types(tt, cname)
        steps = []
        for _ in range(rng.choice([1, 2, 4, 6])):
            o = rng.choice(types)
            k = rng.random()
            ty = o if k < 0.45 else rng.choice(["nope", o + "s", o[:-1], o.upper() if o.upper() != o else "X" + o, o + " ", " " + o, ""])
            steps.append(ty + ":" + rng.choice(TV) if rng.random() < 0.9 else rng.choice(["nocolon", "", o]))
        t = rng.choice(types)
        reqs.append(["tt.seq", cname, ["from", t + ":" + rng.choice(TV[:4])] if rng.random() < 0.5 else ["new", t, rng.choice(TV)], steps])
    classes = P.jf_classes(cl)
    reserved = {"self", "forgiving", "cls", "lab"}
    for C in classes:
        kw = P.corner_kwargs(cl, C)[1]
        calls = []
        for where in ("last", "first", "middle"):
            for n_good in (0, 1, 3):
                for fg in (False, True):
                    pairs = [p for p in bad_pairs(P, cl, C, rng, n_good, where) if p[1] != "not a valid value!"]
                    calls.append([fg, [[k, P.to_wire(v)] for k, v in pairs]])
        reqs.append(["jf.seq", C.__name__, [[k, P.to_wire(v)] for k, v in kw.items()], calls])
    for i in range(max(8, n // 10)):
        C = rng.choice(classes)
        kw = P.domain_kwargs(cl, C, rng)
        calls = []
        for _ in range(rng.choice([1, 2, 3, 5])):
            if rng.random() < 0.3:
                pairs = list(P.domain_kwargs(cl, C, rng).items())          # an accepted call in between
            else:
                pairs = [p for p in bad_pairs(P, cl, C, rng, rng.choice([0, 1, 2, 4]), rng.choice(["last", "first", "middle"])) if p[1] != "not a valid value!"]
            calls.append([rng.random() < 0.3, [[k, P.to_wire(v)] for k, v in pairs if k not in reserved]])
        reqs.append(["jf.seq", C.__name__, [[k, P.to_wire(v)] for k, v in kw.items()], calls])
    steps_all = [{"path": [P.to_wire(["a"]), None]}, {"raw": "g"}, None, {"raw": 5}, {"path": [P.to_wire([]), P.to_wire(["x", "y"])]}, {"raw": ""}, {"raw": P.to_wire(["a"])}]
    for ero in (False, True):
        for t in ("Path", "Graph"):
            reqs.append(["pi.seq", ero, {"type": t, "strict": ero, "payload": None}, steps_all])
            for i in range(max(3, n // 60)):
                reqs.append(["pi.seq", ero, {"type": t, "strict": False, "payload": None}, [rng.choice(steps_all) for _ in range(rng.choice([1, 2, 4]))]])
    return reqs
