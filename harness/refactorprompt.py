"""refactorprompt.py <Cxx> : print the prompt for a sub-agent that writes behaviour-preserving changes (false-alarm test)."""
import json, sys
pid = sys.argv[1]
p = [json.loads(l) for l in open("/verif/properties.jsonl") if json.loads(l)["id"] == pid][0]
W = "/tmp/seed/sR-%s" % pid
O = "/tmp/seed/outR-%s" % pid
print(f"""You are testing a verification effort for false alarms. The Python library fabric-testbed/InformationModel is checked out in a
scratch git worktree at {W} (your own copy; work ONLY there and under {O}; never touch /repo or /verif, and do not read anything
under /verif). Run it with `/venv/bin/python` and `PYTHONPATH={W}`. The sandbox has no network. Never use `git stash` (it is shared
between worktrees); use `git -C {W} diff > file`, `git -C {W} checkout -- .`, `git apply`.

This semantic property of the library holds on the current code and must CONTINUE to hold after your changes:

Title: {p['title']}

Statement: {p['statement']}

Quantifier: {p['quantifier']['text']}

Code it is anchored in: {', '.join(p['anchors']['files'])}

YOUR TASK: produce FOUR different, realistic, BEHAVIOUR-PRESERVING changes to the anchored code (under {W}/fim) of the kind
maintainers commit every week, after which the property above still holds for every input: e.g. rename local variables or private
helpers, extract a helper function / inline one, replace a loop by a comprehension or vice versa, reorder independent statements,
switch string formatting style (%-format / str.format / f-string) producing the identical string, add type hints / docstrings /
logging, replace `if x is None: ... else:` by an equivalent conditional expression, reformat long lines, hoist a constant,
add a defensive check that can never fire, move a method within the class, replace `dict()` by `{{}}`, use `in (a, b)` instead of
`== a or == b`, change an internal iteration to an equivalent one, tidy imports. Each change should touch the code that IMPLEMENTS
this property (not unrelated files) and be non-trivial (10-60 changed lines), but must not change any observable behaviour
(same return values, same exceptions of the same class, same stored data, same text handed to external systems character by
character, same order of side effects). Make the four changes different in kind and in location.

For each change i = 1..4:
  1. start from a clean worktree (`git -C {W} checkout -- . && git -C {W} clean -fdq`), make the change, save it with
     `mkdir -p {O}/i && git -C {W} diff > {O}/i/patch.diff` (must apply to a clean worktree with `git apply`; only files under fim/).
  2. convince yourself it is behaviour-preserving: write {O}/i/equiv.py, a small program exercising the touched code on a range of
     inputs (including error paths) that prints a digest of the results; run it on the unchanged tree and with the change, the
     outputs must be identical (`cd {W} && PYTHONPATH={W} /venv/bin/python {O}/i/equiv.py`).
  3. verify the pinned suite still passes with the change: `/venv/bin/python /tmp/seed/pinned.py {W}` must print `missing 0`.
  4. write {O}/i/meta.json with keys "property": "{pid}", "summary" (what was changed), "kind" (rename / extract / reorder / ...),
     "files_touched" (list), "why_equivalent" (one or two sentences).
Leave the worktree clean at the end. Final message: one line per change and confirmation of the verifications.""")
