"""Generator of annotated substrate (aggregate resource) models for C13 (and, read-only, C14).

Everything is built through the repo's own API (fim.user.SubstrateTopology: add_node, add_component,
add_network_service, add_interface, add_switch, add_facility, add_link) on the in-memory NetworkX
backend, the way test/substrate_topology_test.py builds the advertisement files, and annotated with
delegations through ABCARMPropertyGraph.annotate_delegations_and_pools / Delegations.to_json.

  fresh_store()                         reset the process-wide NetworkX store
  build(rng, size)        -> Substrate  (topology + the element ids by role)
  annotate(sub, rng, ids, mode)         write delegations for 1..3 delegation ids (single and pooled)
  snapshot(graph)         -> dict       canonical content of one graph id in the store
  load_ad(path)           -> graph      import a GraphML advertisement under its own graph id

A snapshot is {"nodes": {NodeID: {"cls", "props": {k: v}, "ldel": D, "cdel": D}}, "edges": [[a, b, rel, {k: v}]]}
with a <= b, edges sorted, D = None (property absent) | False (present, value 'None') | {delegation id: canonical
JSON text of the entry}; GraphID/NodeID/Class and the two delegation properties are not part of "props".
"""
import json

LDEL = "LabelDelegations"
CDEL = "CapacityDelegations"
SKIP = ("GraphID", "NodeID", "Class", LDEL, CDEL)


def fresh_store():
    """Drop every graph of the singleton store (ids of earlier cases must not leak into the next one)."""
    from fim.graph.networkx_property_graph import NetworkXGraphStorage
    NetworkXGraphStorage.storage_instance = None


def cj(o):
    return json.dumps(o, sort_keys=True, separators=(",", ":"))


def decode_delprop(v):
    """None absent, False for the 'None' marker, else {delegation id: canonical entry text}."""
    if v is None:
        return None
    if v == "None":
        return False
    d = json.loads(v)
    return {k: cj(e) for k, e in d.items()}


def snapshot(graph, graph_id=None):
    gid = graph_id or graph.graph_id
    g = graph.storage.extract_graph(gid)
    out = {"nodes": {}, "edges": []}
    if g is None:
        return out
    for n, a in g.nodes(data=True):
        if a.get("GraphID") != gid:
            continue
        out["nodes"][a["NodeID"]] = {
            "cls": a.get("Class"),
            "props": {k: (v if isinstance(v, str) else repr(v)) for k, v in a.items() if k not in SKIP},
            "ldel": decode_delprop(a.get(LDEL)), "cdel": decode_delprop(a.get(CDEL))}
    for u, v, a in g.edges(data=True):
        x, y = g.nodes[u]["NodeID"], g.nodes[v]["NodeID"]
        if y < x:
            x, y = y, x
        out["edges"].append([x, y, a.get("Class"), {k: (w if isinstance(w, str) else repr(w)) for k, w in a.items() if k != "Class"}])
    out["edges"].sort(key=lambda e: (e[0], e[1], str(e[2])))
    return out


def store_graph_ids(importer):
    """All graph ids present in the singleton store."""
    g = importer.storage.get_graph(None)
    return sorted({a.get("GraphID") for _, a in g.nodes(data=True)})


def load_ad(path, importer=None):
    from fim.graph.networkx_property_graph import NetworkXGraphImporter
    imp = importer or NetworkXGraphImporter()
    return imp.import_graph_from_file_direct(graph_file=path)


class Substrate:
    """A built topology and its element ids by role."""

    def __init__(self, topo):
        self.topo = topo
        self.workers, self.components, self.services, self.interfaces = [], [], [], []
        self.switches, self.facilities, self.links, self.stitch = [], [], [], []

    @property
    def graph(self):
        return self.topo.graph_model

    def arm(self):
        return self.topo.as_arm()

    def delegatable(self):
        """ids that may carry a delegation (everything but links), in creation order."""
        return self.workers + self.components + self.services + self.interfaces + self.switches + self.facilities


def build(rng, size=1, tag="m"):
    """size 0: one worker + one NIC + switch; 1: a site; 2: two sites with inter-switch links, facilities, P4 switch."""
    import fim.user as f
    fresh_store()
    topo = f.SubstrateTopology()
    s = Substrate(topo)
    nsites = 1 if size < 2 else rng.choice([1, 2, 2])
    uplinks = []
    for si in range(nsites):
        site = "S%d" % si
        pre = "%s-%s" % (tag, site)
        stitch_sw = rng.random() < 0.6
        sw = topo.add_node(name=pre + "-dp", node_id=pre + "-dp", site=site, ntype=f.NodeType.Switch,
                           **({"stitch_node": True} if stitch_sw else {}))
        s.switches.append(sw.node_id)
        sw_caps = {} if stitch_sw else {"labels": f.Labels(vlan_range="1-100")}
        ns = sw.add_network_service(name=pre + "-dp-ns", node_id=pre + "-dp-ns", nstype=f.ServiceType.MPLS,
                                    **({"stitch_node": True} if stitch_sw else sw_caps))
        s.services.append(ns.node_id)
        if stitch_sw:
            s.stitch += [sw.node_id, ns.node_id]
        port = [0]

        def swport(stitch=False, caps=True):
            port[0] += 1
            kw = {}
            if stitch:
                kw["stitch_node"] = True
            elif caps:
                kw["capacities"] = f.Capacities(bw=rng.choice([25, 100]))
                if rng.random() < 0.6:
                    kw["labels"] = f.Labels(vlan_range="1-4096")
            p = ns.add_interface(name="%s-p%d" % (pre, port[0]), node_id="%s-dp-p%d" % (pre, port[0]),
                                 itype=f.InterfaceType.TrunkPort, **kw)
            s.interfaces.append(p.node_id)
            if stitch:
                s.stitch.append(p.node_id)
            return p

        nworkers = 1 if size == 0 else rng.randint(1, 3)
        lidx = [0]

        def link(a, b, ltype=None):
            lidx[0] += 1
            lk = topo.add_link(name="%s-l%d" % (pre, lidx[0]), node_id="%s-l%d" % (pre, lidx[0]),
                               ltype=ltype or f.LinkType.Patch, interfaces=[a, b])
            s.links.append(lk.node_id)
            return lk

        for wi in range(nworkers):
            wn = "%s-w%d" % (pre, wi)
            kw = {}
            r = rng.random()
            if r < 0.75:
                kw["capacities"] = f.Capacities(core=rng.choice([8, 32]), ram=rng.choice([64, 512]), disk=100, unit=1)
            if rng.random() < 0.15:
                kw["labels"] = f.Labels(local_name=wn)       # a node carrying only a label (when no capacities)
            w = topo.add_node(name=wn, node_id=wn, site=site, ntype=f.NodeType.Server, **kw)
            s.workers.append(w.node_id)
            for ci in range(rng.randint(0, 2) if size else 0):
                kind = rng.choice(["nvme", "gpu"])
                ckw = {}
                if rng.random() < 0.8:
                    ckw["capacities"] = f.Capacities(unit=1, disk=1000) if kind == "nvme" else f.Capacities(unit=1)
                if rng.random() < 0.7:
                    ckw["labels"] = f.Labels(bdf="0000:%02x:00.0" % (0x20 + ci))
                c = w.add_component(name="%s-%s%d" % (wn, kind, ci), node_id="%s-%s%d" % (wn, kind, ci),
                                    model="P4510" if kind == "nvme" else "RTX6000",
                                    ctype=f.ComponentType.NVME if kind == "nvme" else f.ComponentType.GPU, **ckw)
                s.components.append(c.node_id)
            for ni in range(1 if size == 0 else rng.randint(1, 2)):
                shared = rng.random() < 0.4
                nn = "%s-nic%d" % (wn, ni)
                nports = 1 if shared else 2
                ids = ["%s-p%d" % (nn, k + 1) for k in range(nports)]
                ilabs = [f.Labels(mac="04:3F:72:B7:%02X:%02X" % (wi * 16 + ni, k), vlan_range="1-4096") for k in range(nports)]
                ckw = {}
                if rng.random() < 0.85:
                    ckw["capacities"] = f.Capacities(unit=4 if shared else 1)
                if rng.random() < 0.7:
                    ckw["labels"] = f.Labels(bdf=["0000:41:00.%d" % k for k in range(nports)])
                c = w.add_component(name=nn, node_id=nn, model="ConnectX-6", network_service_node_id=nn + "-sf",
                                    interface_node_ids=ids, interface_labels=ilabs,
                                    ctype=f.ComponentType.SharedNIC if shared else f.ComponentType.SmartNIC, **ckw)
                s.components.append(c.node_id)
                s.services.append(nn + "-sf")
                for i in c.interface_list:
                    s.interfaces.append(i.node_id)
                    if rng.random() < 0.85:
                        link(i, swport(stitch=stitch_sw and rng.random() < 0.8))
        if size >= 1 and rng.random() < 0.5:
            # P4 switch with its own ports, patched to (non-stitch) dataplane ports
            np_ = rng.randint(1, 3)
            p4 = topo.add_switch(name=pre + "-p4", node_id=pre + "-p4", site=site, nports=np_)
            s.switches.append(p4.node_id)
            s.services.append(pre + "-p4-ns")
            for i in p4.interface_list:
                s.interfaces.append(i.node_id)
                link(i, swport(stitch=False))
        if size >= 1:
            nfac = rng.choice([0, 1, 2, 3]) if size >= 2 else rng.choice([0, 1])
            facing = swport(stitch=False) if nfac else None     # ONE port facing all facilities, as in the Network ad
            for fi in range(nfac):
                fn = "%s-fac%d" % (pre, fi)
                kw = {}
                r = rng.random()
                if r < 0.4:
                    kw = {"capacities": f.Capacities(mtu=1500, bw=10)}
                elif r < 0.8:
                    kw = {"labels": f.Labels(vlan_range="1-100"), "capacities": f.Capacities(mtu=9000)}
                nskw = {"nslabels": f.Labels(asn="123456"), "nstype": f.ServiceType.L3VPN} if rng.random() < 0.3 else {}
                fac = topo.add_facility(name=fn, node_id=fn, site=site, **nskw, **kw)
                s.facilities.append(fac.node_id)
                s.services.append(fn + "-ns")
                s.interfaces.append(fn + "-int")
                own = rng.random() < 0.4
                link(fac.interface_list[0], swport(stitch=False) if own else facing, ltype=f.LinkType.L2Path)
        for _ in range(rng.randint(0, 2) if size >= 1 else 0):
            swport(stitch=False)            # unconnected dataplane ports
        if nsites > 1:
            uplinks.append([swport(stitch=False, caps=rng.random() < 0.8) for _ in range(rng.randint(1, 2))])
    if nsites > 1:
        for k, (a, b) in enumerate(zip(uplinks[0], uplinks[1])):
            lk = topo.add_link(name="%s-wave%d" % (tag, k), node_id="%s-wave%d" % (tag, k), ltype=f.LinkType.L2Path,
                               interfaces=[a, b])
            s.links.append(lk.node_id)
    return s


def _details(e, atype):
    from fim.slivers.delegations import DelegationType
    return e.get_property(pname="capacities" if atype == DelegationType.CAPACITY else "labels")


def annotate(sub, rng, ids, mode="mixed"):
    """Write label/capacity delegations for the delegation ids `ids` onto sub's ARM.

    mode "single": SubstrateTopology.single_delegation(ids[0]) (the repo's own path; everything to one id);
    mode "mixed":  every element with capacities/labels is delegated to one id, some to two (shared elements),
                   some to none; some families of interfaces are pooled (definition on the owning service's first
                   interface, references on the others). Written with annotate_delegations_and_pools, then a few
                   nodes are overwritten directly with Delegations.to_json (mixed single + pool reference entries,
                   an empty object, the 'None' marker) the way a hand-edited advertisement would carry them.
    Returns {"holders": {id: sorted node ids}} as intended by the generator (the oracle recomputes from the snapshot).
    """
    import fim.user as f
    from fim.slivers.delegations import Delegation, Delegations, DelegationType, DelegationFormat, Pool, Pools
    topo = sub.topo
    if mode == "single":
        topo.single_delegation(delegation_id=ids[0], label_pools=Pools(atype=DelegationType.LABEL),
                               capacity_pools=Pools(atype=DelegationType.CAPACITY))
        return
    arm = sub.arm()
    elems = {}
    for n in topo.nodes.values():
        elems[n.node_id] = n
        for c in n.components.values():
            elems[c.node_id] = c
            for sf in c.network_services.values():
                elems[sf.node_id] = sf
            for i in c.interface_list:
                elems[i.node_id] = i
        for sf in n.network_services.values():
            elems[sf.node_id] = sf
            for i in sf.interface_list:
                elems[i.node_id] = i
    # owner id per element: a worker and everything on it usually go to the same delegation id
    home = {}
    for n in topo.nodes.values():
        h = rng.choice(ids)
        fam = [n.node_id]
        for c in n.components.values():
            fam.append(c.node_id)
            fam += [sf.node_id for sf in c.network_services.values()] + [i.node_id for i in c.interface_list]
        for sf in n.network_services.values():
            fam.append(sf.node_id)
            fam += [i.node_id for i in sf.interface_list]
        for x in fam:
            home[x] = h if rng.random() < 0.8 else rng.choice(ids)
    for t in (DelegationType.CAPACITY, DelegationType.LABEL):
        dels = {}
        pools = Pools(atype=t)
        pooled = set()
        # pools: the interfaces of one network service that all carry details of this type
        if rng.random() < 0.7:
            for n in topo.nodes.values():
                for sf in n.network_services.values():
                    cand = [i for i in sf.interface_list if _details(i, t) is not None and not i.get_property("stitch_node")]
                    if len(cand) >= 2 and rng.random() < 0.5:
                        k = rng.randint(2, min(len(cand), 4))
                        cand = cand[:k]
                        pid = "pool-%s-%s" % ("c" if t == DelegationType.CAPACITY else "l", sf.node_id)
                        p = Pool(atype=t, pool_id=pid, delegation_id=home[cand[0].node_id],
                                 defined_on=cand[0].node_id, defined_for=[c.node_id for c in cand])
                        p.set_pool_details(_details(cand[0], t))
                        pools.add_pool(pool=p)
                        pooled.update(c.node_id for c in cand)
        pools.build_index_by_delegation_id()
        for nid, e in elems.items():
            if nid in pooled or e.get_property("stitch_node"):
                continue
            det = _details(e, t)
            if det is None:
                continue
            r = rng.random()
            if r < 0.1:
                continue                                    # has resources, delegated to nobody
            who = [home[nid]]
            if r > 0.8 and len(ids) > 1:
                who = rng.sample(ids, rng.randint(2, len(ids)))   # shared between delegations
            ds = Delegations(atype=t)
            for w in who:
                d = Delegation(atype=t, delegation_id=w, aformat=DelegationFormat.SinglePool)
                d.set_details(det)
                ds.add_delegations(d)
            dels[nid] = ds
        arm.annotate_delegations_and_pools(dels=dels, pools=pools)
    # direct overwrites (what the public annotate API cannot produce)
    g = sub.graph
    for nid in rng.sample(sorted(elems), min(len(elems), rng.randint(0, 3))):
        r = rng.random()
        prop = rng.choice([LDEL, CDEL])
        if r < 0.35:
            g.update_node_property(node_id=nid, prop_name=prop, prop_val="None")
        elif r < 0.55:
            g.update_node_property(node_id=nid, prop_name=prop, prop_val="{}")
        else:
            t = DelegationType.LABEL if prop == LDEL else DelegationType.CAPACITY
            ds = Delegations(atype=t)
            a = rng.choice(ids)
            d = Delegation(atype=t, delegation_id=a, aformat=DelegationFormat.SinglePool)
            d.set_details(f.Labels(vlan_range="7-9") if t == DelegationType.LABEL else f.Capacities(unit=3))
            ds.add_delegations(d)
            others = [x for x in ids if x != a]
            if others:
                d2 = Delegation(atype=t, delegation_id=rng.choice(others), aformat=DelegationFormat.PoolReference,
                                pool_id="pool-x")
                ds.add_delegations(d2)
            g.update_node_property(node_id=nid, prop_name=prop, prop_val=ds.to_json())
