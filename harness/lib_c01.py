"""C01 helpers: adversarial text grammar, raw-graph and topology builders, implementation
runner, parsers from the implementation's text into the document model of
lean/FimVerif/Model/GraphML.lean, canonical snapshots."""
import json
import os
import re
import shutil
import tempfile
import unicodedata

import networkx as nx
from lxml import etree

NS = "{http://graphml.graphdrawing.org/xmlns}"

# --------------------------------------------------------------------------
# text grammar (XML-legal characters only; U+000D only on request)

ATOMS = {
    "word": ["a", "abc", "Worker", "node", "x1", "RENC", "n", "Z", "fabric"],
    "quote": ['"', "'", '""', "\"'", "`"],
    "markup": ["<", ">", "&", "&amp;", "&lt;", "&#13;", "&#x41;", "<a>", "</data>", "<!--", "-->", "<?xml?>", "&;"],
    "cdata-end": ["]]>", "<![CDATA[", "]]", "]]>]]>"],
    "nonascii-bmp": ["é", "ß", "中文", " ", " ", " ", "﻿", "́", "�", "​", "Ж"],
    "astral": ["\U0001F600", "\U0001D4B3", "\U00010000", "\U0010FFFD"],
    "c1-del": ["\u007f", "\u0085", "\u0080", "\u009f"],
    "tab": ["\t"],
    "newline": ["\n", "\n\n"],
    "blank": [" ", "  "],
    "escape-like": ["\\", "\\n", "\\u0041", "\\\"", "%s", "{}", "${x}", "{{", "\\r"],
    "numeric-looking": ["0", "12", "-1", "1.5", "1e5", "+3", "007", "1_0", "0x10"],
    "keyword-looking": ["None", "null", "true", "True", "false", "NaN", "[]", "{}", '{"a": 1}', "[1, 2]"],
}
CLASSES = list(ATOMS)


def classify(s):
    """character classes hit by a string value (for the evidence histogram)"""
    out = set()
    if s == "":
        return {"empty"}
    if s.strip(" \t\n\r") == "":
        out.add("ws-only")
    if s[0] in " \t\n":
        out.add("lead-blank")
    if s[-1] in " \t\n":
        out.add("trail-blank")
    for ch in s:
        o = ord(ch)
        if ch in "\"'`":
            out.add("quote")
        elif ch in "<>&":
            out.add("markup")
        elif ch == "\t":
            out.add("tab")
        elif ch == "\n":
            out.add("newline")
        elif ch == "\r":
            out.add("U+000D")
        elif ch == "\\":
            out.add("backslash")
        elif 0x7f <= o <= 0x9f:
            out.add("c1-del")
        elif o > 0xffff:
            out.add("astral")
        elif o > 0x7f:
            out.add("nonascii-bmp")
            if unicodedata.category(ch) in ("Zl", "Zp", "Zs"):
                out.add("unicode-space")
    if "]]>" in s:
        out.add("cdata-end")
    if re.fullmatch(r"[+-]?[0-9][0-9_.e]*", s):
        out.add("numeric-looking")
    if s in ATOMS["keyword-looking"]:
        out.add("keyword-looking")
    return out


def xml_legal(s):
    for ch in s:
        o = ord(ch)
        if not (o in (9, 10, 13) or 0x20 <= o <= 0xD7FF or 0xE000 <= o <= 0xFFFD or 0x10000 <= o <= 0x10FFFF):
            return False
    return True


def gen_text(rng, maxlen=24, allow_cr=False):
    k = rng.random()
    if k < 0.06:
        return ""
    if k < 0.10:
        return rng.choice([" ", "\t", "\n", "  \n ", " \t "])
    parts = []
    n = rng.choice([1, 1, 2, 2, 3, 4, 6]) if maxlen <= 40 else rng.randrange(1, max(2, maxlen // 4))
    for _ in range(n):
        c = rng.choice(CLASSES)
        parts.append(rng.choice(ATOMS[c]))
    if allow_cr and rng.random() < 0.5:
        parts.insert(rng.randrange(len(parts) + 1), rng.choice(["\r", "\r\n"]))
    s = "".join(parts)
    if rng.random() < 0.15:
        s = rng.choice([" ", "\t", "\n", "  "]) + s
    if rng.random() < 0.15:
        s = s + rng.choice([" ", "\t", "\n", "  "])
    s = s[:maxlen]
    assert xml_legal(s)
    return s


INTS = [0, 1, -1, 2, 7, 100, 4096, 2 ** 31 - 1, 2 ** 31, -2 ** 31, 2 ** 63 - 1, 2 ** 63, -2 ** 63 - 1, 10 ** 30]


def gen_value(rng, maxlen=24, floats=False):
    k = rng.random()
    if k < 0.62:
        return gen_text(rng, maxlen)
    if k < 0.85:
        return rng.choice(INTS) if rng.random() < 0.6 else rng.randrange(-1000, 100000)
    if k < 0.95 or not floats:
        return rng.random() < 0.5
    return rng.choice([1.5, -0.25, 1e300, 1e-7, 3.0, 0.1])


# --------------------------------------------------------------------------
# wire forms

def val(v):
    if isinstance(v, bool):
        return ["b", v]
    if isinstance(v, int):
        return ["i", v]
    if isinstance(v, str):
        return ["s", v]
    if isinstance(v, float):
        return ["f", repr(v)]
    return ["o", json.dumps(v, sort_keys=True, default=str)]


def attrs_wire(d):
    return [[str(k), val(v)] for k, v in d.items()]


def dumps(x):
    return json.dumps(x, ensure_ascii=False, separators=(",", ":"))


def _kid(kid):
    """key id `d<n>` -> n (the model's form); anything else is kept as the string it is, so that the
    oracle can still read the document and the correspondence sees a difference instead of a crash"""
    if isinstance(kid, str) and re.fullmatch(r"d[0-9]+", kid):
        return int(kid[1:])
    return "id:%s" % kid


def doc_in_model(doc):
    """can the driver take this document? (int key ids, one graph, simple)"""
    if doc["fmt"] == "graphml":
        if not all(isinstance(k[0], int) for k in doc["keys"]):
            return False
        for el in doc["nodes"]:
            if not all(isinstance(d[0], int) for d in el[2]):
                return False
        for el in doc["edges"]:
            if not all(isinstance(d[0], int) for d in el[3]):
                return False
    return doc_simple(doc)


def parse_graphml_text(text):
    """the implementation's GraphML text -> document model (document order everywhere)"""
    root = etree.fromstring(text.encode("utf-8"))
    keys = []
    for k in root.findall(NS + "key"):
        keys.append([_kid(k.get("id")), k.get("attr.name"), k.get("for"), k.get("attr.type")])
    graphs = root.findall(NS + "graph")
    if len(graphs) != 1:
        raise ValueError("expected one <graph>")
    g = graphs[0]

    def data(el):
        out = []
        for d in el.findall(NS + "data"):
            kid = d.get("key")
            if len(d):
                raise ValueError("data with sub-elements")
            out.append([_kid(kid), d.text or ""])
        return out
    nodes = [[n.get("id"), n.get("labels"), data(n)] for n in g.findall(NS + "node")]
    edges = [[e.get("source"), e.get("target"), e.get("label"), data(e)] for e in g.findall(NS + "edge")]
    return {"fmt": "graphml", "keys": keys, "nodes": nodes, "edges": edges,
            "edgedefault": g.get("edgedefault"), "extra": sorted(set(c.tag for c in g) - {NS + "node", NS + "edge"})}


_ROLES = None


def json_roles():
    """(id key, source key, target key) of the node-link objects, as the translator observes them on the code"""
    global _ROLES
    if _ROLES is None:
        try:
            from gen import serial
            r = serial.probe_store()["shared"]["roles"]
            _ROLES = (r["id"], r["source"], r["target"])
        except Exception:
            _ROLES = ("id", "source", "target")
    return _ROLES


def parse_json_text(text):
    o = json.loads(text)
    idk, srck, tgtk = json_roles()

    def obj(d, reserved):
        return [[k, (["k", json.dumps(v)] if k in reserved else val(v))] for k, v in d.items()]
    return {"fmt": "json", "directed": o.get("directed"), "multigraph": o.get("multigraph"),
            "nodes": [obj(d, (idk,)) for d in o["nodes"]],
            "edges": [obj(d, (srck, tgtk)) for d in o["edges"]],
            "graph": o.get("graph"), "extra": sorted(set(o) - {"directed", "multigraph", "graph", "nodes", "edges"})}


def parse_text(text):
    t = text.lstrip()
    return parse_json_text(text) if t.startswith("{") else parse_graphml_text(text)


def doc_simple(doc):
    """distinct node ids, declared endpoints, no parallel edges - the reader model's domain"""
    if doc["fmt"] == "graphml":
        ids = [n[0] for n in doc["nodes"]]
        pairs = [frozenset((e[0], e[1])) for e in doc["edges"]]
        ends = [x for e in doc["edges"] for x in e[:2]]
    else:
        ids, pairs, ends = [], [], []
        for n in doc["nodes"]:
            d = dict((k, v) for k, v in n)
            if "id" not in d:
                return False
            ids.append(d["id"][1])
        for e in doc["edges"]:
            d = dict((k, v) for k, v in e)
            if "source" not in d or "target" not in d:
                return True     # reader raises KeyError before anything else matters
            pairs.append(frozenset((d["source"][1], d["target"][1])))
            ends += [d["source"][1], d["target"][1]]
    return len(set(ids)) == len(ids) and len(set(pairs)) == len(pairs) and set(ends) <= set(ids)


def lean_doc_norm(doc):
    """driver reply -> comparable form (same shape as parse_*_text without the extras)"""
    if doc is None:
        return None
    if doc["fmt"] == "graphml":
        return {"fmt": "graphml", "keys": doc["keys"], "nodes": doc["nodes"], "edges": doc["edges"]}
    return {"fmt": "json", "directed": doc["directed"], "multigraph": doc["multigraph"],
            "nodes": doc["nodes"], "edges": doc["edges"]}


def impl_doc_norm(doc):
    if doc is None:
        return None
    if doc["fmt"] == "graphml":
        return {"fmt": "graphml", "keys": doc["keys"], "nodes": doc["nodes"], "edges": doc["edges"]}
    return {"fmt": "json", "directed": doc["directed"], "multigraph": doc["multigraph"],
            "nodes": doc["nodes"], "edges": doc["edges"]}


def doc_for_driver(doc):
    d = impl_doc_norm(doc)
    return d


# --------------------------------------------------------------------------
# implementation runner

class Impl:
    """a fresh store + importer (shared or disjoint flavour); every C01 mechanism through the library's own calls"""

    def __init__(self, disjoint=False):
        self.disjoint = bool(disjoint)
        if self.disjoint:
            import fim.graph.networkx_property_graph_disjoint as m
            self.m = m
            m.NetworkXGraphStorageDisjoint.storage_instance = None
            self.imp = m.NetworkXGraphImporterDisjoint()
            self.st = m.NetworkXGraphStorageDisjoint.storage_instance
            self.gclass = m.NetworkXPropertyGraphDisjoint
            self.px = "d"
        else:
            import fim.graph.networkx_property_graph as m
            self.m = m
            m.NetworkXGraphStorage.storage_instance = None
            self.imp = m.NetworkXGraphImporter()
            self.st = m.NetworkXGraphStorage.storage_instance
            self.gclass = m.NetworkXPropertyGraph
            self.px = ""
        self.tmp = tempfile.mkdtemp(prefix="c01-")
        self.nfile = 0

    def close(self):
        shutil.rmtree(self.tmp, ignore_errors=True)
        if self.disjoint:
            self.m.NetworkXGraphStorageDisjoint.storage_instance = None
        else:
            self.m.NetworkXGraphStorage.storage_instance = None

    def graph(self, gid):
        return self.gclass(graph_id=gid, importer=self.imp)

    def nx(self, gid):
        """the nx.Graph object holding graph gid"""
        return self.st.graphs[gid] if self.disjoint else self.st.graphs

    def _ge(self, g):
        return [[[n, attrs_wire(d)] for n, d in g.nodes(data=True)], [[u, v, attrs_wire(d)] for u, v, d in g.edges(data=True)]]

    def load_op(self):
        if self.disjoint:
            return ["dload", [[val(k)] + self._ge(g) for k, g in self.st.graphs.items()],
                    [[val(k), c] for k, c in self.st.graph_node_ids.items()]]
        ns, es = self._ge(self.st.graphs)
        return ["load", self.st.start_id, ns, es]

    def dump(self):
        if self.disjoint:
            return {"graphs": [[val(k)] + self._ge(g) for k, g in self.st.graphs.items()],
                    "counters": [[val(k), c] for k, c in self.st.graph_node_ids.items()]}
        ns, es = self._ge(self.st.graphs)
        return {"next": self.st.start_id, "nodes": ns, "edges": es}

    def serialize(self, gid, fmt):
        from fim.graph.abc_property_graph import GraphFormat
        return self.graph(gid).serialize_graph(format=GraphFormat.GRAPHML if fmt == "graphml" else GraphFormat.JSON_NODELINK)

    def write(self, text):
        self.nfile += 1
        p = os.path.join(self.tmp, "g%d.txt" % self.nfile)
        with open(p, "w", encoding="utf-8", newline="") as f:
            f.write(text)
        return p

    def import_(self, entry, text, gid=None):
        """returns the graph id of the imported graph"""
        if entry == "string":
            return self.imp.import_graph_from_string(graph_string=text, graph_id=gid).graph_id
        if entry == "file":
            return self.imp.import_graph_from_file(graph_file=self.write(text), graph_id=gid).graph_id
        if entry == "string_direct":
            return self.imp.import_graph_from_string_direct(graph_string=text).graph_id
        if entry == "file_direct":
            return self.imp.import_graph_from_file_direct(graph_file=self.write(text)).graph_id
        raise ValueError(entry)

    def has_graph(self, gid):
        if self.disjoint:
            return gid in self.st.graphs and len(self.st.graphs[gid]) > 0
        return self.st.extract_graph(gid) is not None


ENTRIES = ("string", "file", "string_direct", "file_direct")


def snapshot(st, gid):
    """canonical content of one graph: nodes keyed by NodeID (typed values, GraphID dropped),
    edges as unordered NodeID pairs with their typed properties"""
    if hasattr(st, "graph_node_ids") and gid not in st.graphs:
        return None                      # disjoint flavour: do not let the defaultdict create an entry
    g = st.extract_graph(gid)
    if g is None or len(g) == 0:
        return None

    def tv(v):
        return [type(v).__name__, repr(v) if isinstance(v, float) else v]
    nodes = {}
    for n, d in g.nodes(data=True):
        nid = d.get("NodeID")
        key = json.dumps(tv(nid), ensure_ascii=True)
        if key in nodes:
            key = key + "#%d" % len(nodes)
        nodes[key] = sorted([k, tv(v)] for k, v in d.items() if k != "GraphID")
    edges = []
    for u, v, d in g.edges(data=True):
        a = json.dumps(tv(g.nodes[u].get("NodeID")), ensure_ascii=True)
        b = json.dumps(tv(g.nodes[v].get("NodeID")), ensure_ascii=True)
        edges.append([sorted([a, b]), sorted([k, tv(x)] for k, x in d.items())])
    edges.sort(key=lambda e: json.dumps(e, ensure_ascii=True))
    return {"nodes": nodes, "edges": edges, "graph_ids": sorted({json.dumps(tv(d.get("GraphID"))) for _, d in g.nodes(data=True)})}


def node_ids(im, gid):
    """NodeIDs of a stored graph, in store order"""
    g = im.nx(gid)
    return [d.get("NodeID") for _, d in g.nodes(data=True) if d.get("GraphID") == gid]


def doc_content(doc, markup=True):
    """canonical content of a parsed document, independent of internal ids, key ids and order;
    markup=False leaves the label markup (checked separately) out"""
    if doc["fmt"] == "graphml":
        kt = {}
        for k in doc["keys"]:
            kt.setdefault(k[0], []).append((k[1], k[3], k[2]))

        def props(data, scope):
            out = []
            for kid, text in data:
                cands = kt.get(kid) or [("?%s" % kid, "?", scope)]
                name, ty, sc = next((c for c in cands if c[2] == scope), cands[-1])
                out.append([name, ty, text])
            return sorted(out)
        nid = {}
        nodes = []
        for n in doc["nodes"]:
            p = props(n[2], "node")
            me = [x[2] for x in p if x[0] == "NodeID"]
            nid[n[0]] = me[0] if me else None
            nodes.append({"labels": n[1] if markup else None, "props": [x for x in p if x[0] != "GraphID"]})
        edges = [{"ends": sorted([json.dumps(nid.get(e[0])), json.dumps(nid.get(e[1]))]), "label": e[2] if markup else None,
                  "props": props(e[3], "edge")} for e in doc["edges"]]
    else:
        nid = {}
        nodes = []
        for n in doc["nodes"]:
            d = dict((k, v) for k, v in n)
            nid[d["id"][1]] = d.get("NodeID")
            nodes.append({"props": sorted([k, v] for k, v in n if k not in ("id", "GraphID"))})
        edges = []
        for e in doc["edges"]:
            d = dict((k, v) for k, v in e)
            edges.append({"ends": sorted([json.dumps(nid.get(d["source"][1])), json.dumps(nid.get(d["target"][1]))]),
                          "props": sorted([k, v] for k, v in e if k not in ("source", "target"))})
    nodes.sort(key=lambda x: json.dumps(x, sort_keys=True))
    edges.sort(key=lambda x: json.dumps(x, sort_keys=True))
    return {"nodes": nodes, "edges": edges}


def markup_errors(doc):
    """label markup demanded by the persistent importer: labels = ':GraphNode:'+Class, label = Class"""
    errs = []
    kt = {}
    for k in doc["keys"]:
        kt.setdefault(k[0], set()).add((k[1], k[2]))
    for n in doc["nodes"]:
        cls = [t for kid, t in n[2] if ("Class", "node") in kt.get(kid, ())]
        if len(cls) != 1 or n[1] != ":GraphNode:" + cls[0]:
            errs.append(["node", n[0], n[1], cls])
    for e in doc["edges"]:
        cls = [t for kid, t in e[3] if ("Class", "edge") in kt.get(kid, ())]
        if len(cls) != 1 or e[2] != cls[0]:
            errs.append(["edge", e[0], e[1], e[2], cls])
    return errs


# --------------------------------------------------------------------------
# builders

NODE_CLASSES = ["NetworkNode", "Component", "NetworkService", "ConnectionPoint", "Link", "CompositeNode"]
RELS = ["has", "connects", "depends"]
PROP_NAMES = ["Name", "Type", "Site", "Model", "StitchNode", "Details", "Layer", "ImageRef", "BootScript", "p1", "p2", "x-y",
              "ünï", "prop_3", "Class2", "label", "labels", "weight", "key"]
JSON_PROP_NAMES = ["Capacities", "Labels", "Tags", "Flags"]


def gen_raw_spec(rng, maxn=8, maxe=12, maxp=6, maxlen=24, floats=False, nid_adversarial=True):
    """a raw property graph as data: {"nodes":[[nid, cls, props]], "edges":[[a, rel, b, props]], "updates":[[nid, name, v]]}"""
    n = rng.randrange(1, maxn + 1)
    nids, nodes, edges, updates = [], [], [], []
    for i in range(n):
        while True:
            if nid_adversarial and rng.random() < 0.4:
                nid = gen_text(rng, maxlen)
            else:
                nid = "%s-%d" % (rng.choice(["n", "node", "X"]), rng.randrange(10 ** 6))
            if nid and nid not in nids:
                break
        nids.append(nid)
        props = {}
        for _ in range(rng.randrange(0, maxp + 1)):
            if rng.random() < 0.12:
                name = rng.choice(JSON_PROP_NAMES)
                v = rng.choice(['{"core": 4}', '{"bdf": "0000:25:00.0"}', "", "None", '{"a": "<&>"}', '[1, 2]', '{"core": 4}', "{bad json", 7])
            else:
                name = rng.choice(PROP_NAMES)
                v = gen_value(rng, maxlen, floats)
            props[name] = v
        cls = rng.choice(NODE_CLASSES) if rng.random() < 0.85 else (gen_text(rng, 12).strip() or "C")
        nodes.append([nid, cls, props])
    for _ in range(rng.randrange(0, maxe + 1)):
        a, b = rng.choice(nids), rng.choice(nids)
        if a == b and rng.random() < 0.8:
            continue
        props = {}
        for _ in range(rng.choice([0, 0, 1, 2])):
            props[rng.choice(["w", "Name", "p1", "x-y", "label", "id", "key"])] = gen_value(rng, maxlen, floats)
        rel = rng.choice(RELS) if rng.random() < 0.9 else (gen_text(rng, 10).strip() or "r")
        edges.append([a, rel, b, props])
    # a few later updates so that dict orders are not just creation order
    for _ in range(rng.choice([0, 0, 1, 2])):
        updates.append([rng.choice(nids), rng.choice(PROP_NAMES), gen_value(rng, maxlen, floats)])
    # key-table collisions: one property name on nodes and on edges with different value types, and with
    # different types from node to node
    if rng.random() < 0.35:
        name = rng.choice(["Index", "Name", "p1", "x-y", "label", "w", "Type"])
        kinds = [lambda i: i + 1, lambda i: "t%d" % i, lambda i: i % 2 == 0]
        kn, ke = rng.sample(kinds, 2)
        mixed = rng.random() < 0.4
        for i, nd in enumerate(nodes):
            if rng.random() < 0.8:
                nd[2][name] = (rng.choice(kinds)(i) if mixed else kn(i))
        for i, ed in enumerate(edges):
            ed[3][name] = ke(i)
    return {"nodes": nodes, "edges": edges, "updates": updates}


def build_raw(g, spec):
    """build a raw graph from its spec through add_node / add_link / update_node_property"""
    for nid, cls, props in spec["nodes"]:
        g.add_node(node_id=nid, label=cls, props=dict(props) or None)
    for a, rel, b, props in spec["edges"]:
        g.add_link(node_a=a, rel=rel, node_b=b, props=dict(props) or None)
    for nid, name, v in spec.get("updates", []):
        g.update_node_property(node_id=nid, prop_name=name, prop_val=v)


def mutate_graph(g, st_snapshot_nids, seed):
    """edit the held graph after it was saved: update / add node / add link / delete node, chosen from `seed`"""
    import random as _r
    rng = _r.Random("C01/mutate/%s" % seed)
    nids = list(st_snapshot_nids)
    done = []
    for _ in range(rng.choice([1, 2, 3])):
        op = rng.choice(["update", "update", "add_node", "add_link", "del_node"])
        try:
            if op == "update":
                nid = rng.choice(nids)
                g.update_node_property(node_id=nid, prop_name=rng.choice(["Name", "p1", "Site", "edited"]), prop_val="edited-%d" % rng.randrange(1000))
            elif op == "add_node":
                nid = "added-%d" % rng.randrange(10 ** 6)
                g.add_node(node_id=nid, label="NetworkNode", props={"Name": "added", "Index": 5})
                nids.append(nid)
            elif op == "add_link" and len(nids) >= 2:
                a, b = rng.sample(nids, 2)
                g.add_link(node_a=a, rel="connects", node_b=b, props={"edited": "yes"})
            elif op == "del_node" and len(nids) >= 2:
                nid = rng.choice(nids)
                g.delete_node(node_id=nid)
                nids.remove(nid)
            else:
                continue
            done.append(op)
        except Exception:
            pass
    if not done:
        g.update_node_property(node_id=nids[0], prop_name="edited", prop_val="yes")
        done.append("update")
    return done


def spec_values(spec):
    for _, cls, props in spec["nodes"]:
        yield cls
        yield from props.values()
    for _, rel, _, props in spec["edges"]:
        yield rel
        yield from props.values()
    for _, _, v in spec.get("updates", []):
        yield v
    for nid, _, _ in spec["nodes"]:
        yield nid


def gen_topology(rng, kind=None, maxlen=24, importer=None):
    """an ExperimentTopology / SubstrateTopology built through the public API; returns the topology"""
    import fim.user as f
    from fim.slivers.capacities_labels import Capacities, Labels
    kind = kind or rng.choice(["slice", "slice", "slice", "substrate"])
    sites = ["RENC", "UKY", "LBNL", "STAR"]
    if kind == "slice":
        t = f.ExperimentTopology(importer=importer)
        nn = rng.randrange(1, 5)
        ifs = []
        for i in range(nn):
            site = rng.choice(sites)
            kw = {}
            if rng.random() < 0.6:
                kw["capacities"] = Capacities(core=rng.choice([1, 2, 4, 8]), ram=rng.choice([2, 8, 64]), disk=rng.choice([10, 100]))
            node = t.add_node(name="n%d" % i, site=site, **kw)
            if rng.random() < 0.5:
                node.set_property("image_ref", rng.choice(["default_centos_8", "default_ubuntu_20"]))
                node.set_property("image_type", "qcow2")
            if rng.random() < 0.4:
                node.set_property("boot_script", gen_text(rng, maxlen))
            if rng.random() < 0.4:
                try:
                    node.set_property("user_data", {"k": gen_text(rng, maxlen), "n": rng.randrange(100)})
                except Exception:
                    pass
            for j in range(rng.choice([0, 1, 1, 2])):
                mt = rng.choice([f.ComponentModelType.SharedNIC_ConnectX_6, f.ComponentModelType.SmartNIC_ConnectX_6,
                                 f.ComponentModelType.SmartNIC_ConnectX_5, f.ComponentModelType.GPU_RTX6000,
                                 f.ComponentModelType.NVME_P4510])
                c = node.add_component(model_type=mt, name="c%d_%d" % (i, j))
                ifs.extend(c.interface_list)
        rng.shuffle(ifs)
        k = 0
        while len(ifs) >= 2 and rng.random() < 0.8 and k < 3:
            m = rng.choice([2, 2, 3]) if len(ifs) >= 3 else 2
            sel, ifs = ifs[:m], ifs[m:]
            try:
                st = f.ServiceType.L2Bridge if len({t.get_owner_node(i).site for i in sel}) == 1 else \
                    (f.ServiceType.L2STS if m > 2 else rng.choice([f.ServiceType.L2PTP, f.ServiceType.L2STS]))
                t.add_network_service(name="s%d" % k, nstype=st, interfaces=sel)
            except Exception:
                pass
            k += 1
        if rng.random() < 0.3:
            try:
                fac = t.add_facility(name="fac1", site=rng.choice(sites), capacities=Capacities(bw=10),
                                     labels=Labels(vlan="100"))
                if ifs:
                    t.add_network_service(name="sf", nstype=f.ServiceType.L2STS, interfaces=[fac.interface_list[0], ifs.pop()])
            except Exception:
                pass
        if rng.random() < 0.3 and nn:
            try:
                t.add_network_service(name="v4", nstype=f.ServiceType.FABNetv4, interfaces=ifs[:1])
            except Exception:
                pass
        return t
    t = f.SubstrateTopology(importer=importer)
    site = rng.choice(sites)
    nn = rng.randrange(1, 3)
    sw = t.add_node(name="dp-sw", site=site, node_id="sw-%d" % rng.randrange(10 ** 6), ntype=f.NodeType.Switch,
                    capacities=Capacities(unit=1), stitch_node=True)
    sf = sw.add_network_service(name=sw.name + "-ns", node_id=sw.node_id + "-ns", nstype=f.ServiceType.MPLS, stitch_node=True)
    for i in range(nn):
        w = t.add_node(name="w%d" % i, model="R7525", site=site, node_id="W%d-%d" % (i, rng.randrange(10 ** 6)),
                       ntype=f.NodeType.Server, capacities=Capacities(core=32, cpu=2, unit=1, ram=512, disk=4800),
                       location=f.Location(postal=gen_text(rng, maxlen) or "x"))
        w.add_component(name=w.name + "-nvme", model="P4510", node_id=w.node_id + "-nvme", ctype=f.ComponentType.NVME,
                        capacities=Capacities(unit=1, disk=1000), labels=Labels(bdf="0000:21:00.0"))
        nic = w.add_component(name=w.name + "-nic", model="ConnectX-6", node_id=w.node_id + "-nic",
                              ctype=f.ComponentType.SmartNIC, capacities=Capacities(unit=1),
                              network_service_node_id=w.node_id + "-nic-sf", interface_node_ids=[w.node_id + "-p1", w.node_id + "-p2"],
                              interface_labels=[Labels(bdf="0000:41:00.0", mac="04:3F:72:B7:15:6C"),
                                                Labels(bdf="0000:41:00.1", mac="04:3F:72:B7:15:6D")])
        spn = "p%d" % i
        sp = sf.add_interface(name=spn, node_id=sw.node_id + "-" + spn, itype=f.InterfaceType.TrunkPort,
                              capacities=Capacities(bw=100))
        t.add_link(name="l%d" % i, ltype=f.LinkType.Patch, node_id="link-%d-%d" % (i, rng.randrange(10 ** 6)),
                   interfaces=[nic.interface_list[0], sp])
    if rng.random() < 0.6:
        try:
            t.single_delegation(delegation_id="del1", label_pools=f.Pools(atype=f.DelegationType.LABEL),
                                capacity_pools=f.Pools(atype=f.DelegationType.CAPACITY))
        except Exception:
            pass
    return t
