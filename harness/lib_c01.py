"""C01 helpers: adversarial text grammar, raw-graph and topology builders, implementation
runner, parsers from the implementation's text into the document model of
lean/FimVerif/Model/GraphML.lean, canonical snapshots."""
import json
import os
import re
import shutil
import tempfile
import unicodedata

import networkx as nx
from lxml import etree

NS = "{http://graphml.graphdrawing.org/xmlns}"

# --------------------------------------------------------------------------
# text grammar (XML-legal characters only; U+000D only on request)

ATOMS = {
    "word": ["a", "abc", "Worker", "node", "x1", "RENC", "n", "Z", "fabric"],
    "quote": ['"', "'", '""', "\"'", "`"],
    "markup": ["<", ">", "&", "&amp;", "&lt;", "&#13;", "&#x41;", "<a>", "</data>", "<!--", "-->", "<?xml?>", "&;"],
    "cdata-end": ["]]>", "<![CDATA[", "]]", "]]>]]>"],
    "nonascii-bmp": ["é", "ß", "中文", " ", " ", " ", "﻿", "́", "�", "​", "Ж"],
    "astral": ["\U0001F600", "\U0001D4B3", "\U00010000", "\U0010FFFD"],
    "c1-del": ["\u007f", "\u0085", "\u0080", "\u009f"],
    "tab": ["\t"],
    "newline": ["\n", "\n\n"],
    "blank": [" ", "  "],
    "escape-like": ["\\", "\\n", "\\u0041", "\\\"", "%s", "{}", "${x}", "{{", "\\r"],
    "numeric-looking": ["0", "12", "-1", "1.5", "1e5", "+3", "007", "1_0", "0x10"],
    "keyword-looking": ["None", "null", "true", "True", "false", "NaN", "[]", "{}", '{"a": 1}', "[1, 2]"],
}
CLASSES = list(ATOMS)


def classify(s):
    """character classes hit by a string value (for the evidence histogram)"""
    out = set()
    if s == "":
        return {"empty"}
    if s.strip(" \t\n\r") == "":
        out.add("ws-only")
    if s[0] in " \t\n":
        out.add("lead-blank")
    if s[-1] in " \t\n":
        out.add("trail-blank")
    for ch in s:
        o = ord(ch)
        if ch in "\"'`":
            out.add("quote")
        elif ch in "<>&":
            out.add("markup")
        elif ch == "\t":
            out.add("tab")
        elif ch == "\n":
            out.add("newline")
        elif ch == "\r":
            out.add("U+000D")
        elif ch == "\\":
            out.add("backslash")
        elif 0x7f <= o <= 0x9f:
            out.add("c1-del")
        elif o > 0xffff:
            out.add("astral")
        elif o > 0x7f:
            out.add("nonascii-bmp")
            if unicodedata.category(ch) in ("Zl", "Zp", "Zs"):
                out.add("unicode-space")
    if "]]>" in s:
        out.add("cdata-end")
    if re.fullmatch(r"[+-]?[0-9][0-9_.e]*", s):
        out.add("numeric-looking")
    if s in ATOMS["keyword-looking"]:
        out.add("keyword-looking")
    return out


def xml_legal(s):
    for ch in s:
        o = ord(ch)
        if not (o in (9, 10, 13) or 0x20 <= o <= 0xD7FF or 0xE000 <= o <= 0xFFFD or 0x10000 <= o <= 0x10FFFF):
            return False
    return True


def gen_text(rng, maxlen=24, allow_cr=False):
    k = rng.random()
    if k < 0.06:
        return ""
    if k < 0.10:
        return rng.choice([" ", "\t", "\n", "  \n ", " \t "])
    parts = []
    n = rng.choice([1, 1, 2, 2, 3, 4, 6]) if maxlen <= 40 else rng.randrange(1, max(2, maxlen // 4))
    for _ in range(n):
        c = rng.choice(CLASSES)
        parts.append(rng.choice(ATOMS[c]))
    if allow_cr and rng.random() < 0.5:
        parts.insert(rng.randrange(len(parts) + 1), rng.choice(["\r", "\r\n"]))
    s = "".join(parts)
    if rng.random() < 0.15:
        s = rng.choice([" ", "\t", "\n", "  "]) + s
    if rng.random() < 0.15:
        s = s + rng.choice([" ", "\t", "\n", "  "])
    s = s[:maxlen]
    assert xml_legal(s)
    return s


INTS = [0, 1, -1, 2, 7, 100, 4096, 2 ** 31 - 1, 2 ** 31, -2 ** 31, 2 ** 63 - 1, 2 ** 63, -2 ** 63 - 1, 10 ** 30]


def gen_value(rng, maxlen=24, floats=False):
    k = rng.random()
    if k < 0.62:
        return gen_text(rng, maxlen)
    if k < 0.85:
        return rng.choice(INTS) if rng.random() < 0.6 else rng.randrange(-1000, 100000)
    if k < 0.95 or not floats:
        return rng.random() < 0.5
    return rng.choice([1.5, -0.25, 1e300, 1e-7, 3.0, 0.1])


# --------------------------------------------------------------------------
# JSON-validated properties: every value shape

def json_property_names():
    """JSON_PROPERTY_NAMES as the code has them now (all of them are generated, not a hand-picked few)"""
    try:
        from fim.graph.abc_property_graph_constants import ABCPropertyGraphConstants as K
        return list(K.JSON_PROPERTY_NAMES)
    except Exception:
        return list(JSON_PROP_NAMES)


def gen_json_object(rng, maxlen=24, depth=0):
    """a JSON value of any shape: number, bool, null, string (adversarial grammar), list, dict, nested, empty"""
    k = rng.random()
    if depth >= 3:
        k *= 0.55
    if k < 0.10:
        return rng.choice([0, 1, -1, 7, 10, 4096, 2 ** 31, 2 ** 63, -2 ** 63 - 1, 10 ** 30])
    if k < 0.16:
        return rng.choice([1.5, -0.25, 0.0, 1e300, 1e-7, 3.0])
    if k < 0.24:
        return rng.random() < 0.5
    if k < 0.29:
        return None
    if k < 0.48:
        return gen_text(rng, maxlen)
    if k < 0.55:
        return rng.choice([[], {}, "", [[]], [{}], {"": ""}, [None], {"a": None}])
    if k < 0.78:
        return [gen_json_object(rng, maxlen, depth + 1) for _ in range(rng.randrange(0, 4))]
    out = {}
    for _ in range(rng.randrange(0, 4)):
        name = gen_text(rng, 8) if rng.random() < 0.3 else rng.choice(["a", "k", "core", "é", "id", "Class", "NodeID", "1", ""])
        out[name] = gen_json_object(rng, maxlen, depth + 1)
    return out


JSON_INVALID = ["{bad json", "'single'", "True", "007", "1_0", "{'a': 1}", "[1, 2", "nul", "{\"a\": }", "+3", "0x10", "1 2", "<a/>"]


def gen_json_text(rng, maxlen=24, invalid=0.12):
    """the *text* of a JSON-validated property: what the setters write (json.dumps of any value, both ascii modes,
    a verbatim JSON text with blanks around it), the two empty conventions, and - separately - texts json.loads rejects"""
    k = rng.random()
    if k < invalid:
        return rng.choice(JSON_INVALID)
    if k < invalid + 0.08:
        return rng.choice(["", "None"])
    o = gen_json_object(rng, maxlen)
    t = json.dumps(o, ensure_ascii=rng.random() < 0.5)
    if rng.random() < 0.12:
        t = rng.choice([" ", "\n", "\t "]) + t + rng.choice(["", " ", "\n"])
    if rng.random() < 0.05:
        t = rng.choice(["NaN", "Infinity", "-Infinity"])          # json.loads takes them
    return t


def json_shape(v):
    """shape class of a JSON-validated property value (evidence histogram; setter_producible)"""
    if not isinstance(v, str):
        return "non-str:" + type(v).__name__
    if v == "":
        return "empty-text"
    if v == "None":
        return "None-text"
    try:
        o = json.loads(v)
    except ValueError:
        return "invalid"
    name = {dict: "object", list: "array", str: "string", bool: "bool", int: "int", float: "float", type(None): "null"}[type(o)]
    if isinstance(o, (dict, list, str)) and len(o) == 0:
        name = "empty-" + name
    elif isinstance(o, (dict, list)) and any(isinstance(x, (dict, list)) for x in (o.values() if isinstance(o, dict) else o)):
        name = "nested-" + name
    if not v.isascii() or (isinstance(o, str) and not o.isascii()):
        name += "+nonascii"
    return name


def graph_nodes_data(im, gid):
    """attribute dicts of the nodes stamped with gid (read off the store, not through the library)"""
    g = im.nx(gid) if (not im.disjoint or gid in im.st.graphs) else None
    if g is None:
        return []
    return [d for _, d in g.nodes(data=True) if d.get("GraphID") == gid]


def json_shapes(im, gid):
    names = json_property_names()
    return ["%s:%s" % (k, json_shape(d[k])) for d in graph_nodes_data(im, gid) for k in names if k in d]


def setter_producible(im, gid):
    """independent statement of 'what the setters can produce': every node and link of the store has a Class, NodeIDs of
    the graph are unique, and every JSON-validated property of the graph's nodes is a text json.loads accepts - any JSON
    value, scalars included: X.to_json() / json.dumps(data) - or one of the two empty conventions. validate_graph()
    must accept such a graph (before and after a round trip)"""
    ds = graph_nodes_data(im, gid)
    if not ds:
        return False
    nids = [d.get("NodeID") for d in ds]
    if len(set(map(repr, nids))) != len(nids) or any(n is None for n in nids):
        return False
    g = im.st.graphs[gid] if im.disjoint else im.st.graphs      # validate_graph looks at the whole nx.Graph it is given
    if any(d.get("Class") is None for _, d in g.nodes(data=True)) or any(d.get("Class") is None for _, _, d in g.edges(data=True)):
        return False
    names = json_property_names()
    for d in ds:
        for k in names:
            if k in d and (not isinstance(d[k], str) or json_shape(d[k]) == "invalid"):
                return False
    return True


# --------------------------------------------------------------------------
# wire forms

def val(v):
    if isinstance(v, bool):
        return ["b", v]
    if isinstance(v, int):
        return ["i", v]
    if isinstance(v, str):
        return ["s", v]
    if isinstance(v, float):
        return ["f", repr(v)]
    return ["o", json.dumps(v, sort_keys=True, default=str)]


def attrs_wire(d):
    return [[str(k), val(v)] for k, v in d.items()]


def dumps(x):
    return json.dumps(x, ensure_ascii=False, separators=(",", ":"))


def _kid(kid):
    """key id `d<n>` -> n (the model's form); anything else is kept as the string it is, so that the
    oracle can still read the document and the correspondence sees a difference instead of a crash"""
    if isinstance(kid, str) and re.fullmatch(r"d[0-9]+", kid):
        return int(kid[1:])
    return "id:%s" % kid


def doc_in_model(doc):
    """can the driver take this document? (int key ids, one graph, simple)"""
    if doc["fmt"] == "graphml":
        if not all(isinstance(k[0], int) for k in doc["keys"]):
            return False
        for el in doc["nodes"]:
            if not all(isinstance(d[0], int) for d in el[2]):
                return False
        for el in doc["edges"]:
            if not all(isinstance(d[0], int) for d in el[3]):
                return False
    return doc_simple(doc)


def parse_graphml_text(text):
    """the implementation's GraphML text -> document model (document order everywhere)"""
    root = etree.fromstring(text.encode("utf-8"))
    keys = []
    for k in root.findall(NS + "key"):
        keys.append([_kid(k.get("id")), k.get("attr.name"), k.get("for"), k.get("attr.type")])
    graphs = root.findall(NS + "graph")
    if len(graphs) != 1:
        raise ValueError("expected one <graph>")
    g = graphs[0]

    def data(el):
        out = []
        for d in el.findall(NS + "data"):
            kid = d.get("key")
            if len(d):
                raise ValueError("data with sub-elements")
            out.append([_kid(kid), d.text or ""])
        return out
    nodes = [[n.get("id"), n.get("labels"), data(n)] for n in g.findall(NS + "node")]
    edges = [[e.get("source"), e.get("target"), e.get("label"), data(e)] for e in g.findall(NS + "edge")]
    return {"fmt": "graphml", "keys": keys, "nodes": nodes, "edges": edges,
            "edgedefault": g.get("edgedefault"), "extra": sorted(set(c.tag for c in g) - {NS + "node", NS + "edge"})}


_ROLES = None


def json_roles():
    """(id key, source key, target key) of the node-link objects, as the translator observes them on the code"""
    global _ROLES
    if _ROLES is None:
        try:
            from gen import serial
            r = serial.probe_store()["shared"]["roles"]
            _ROLES = (r["id"], r["source"], r["target"])
        except Exception:
            _ROLES = ("id", "source", "target")
    return _ROLES


def parse_json_text(text):
    o = json.loads(text)
    idk, srck, tgtk = json_roles()

    def obj(d, reserved):
        return [[k, (["k", json.dumps(v)] if k in reserved else val(v))] for k, v in d.items()]
    return {"fmt": "json", "directed": o.get("directed"), "multigraph": o.get("multigraph"),
            "nodes": [obj(d, (idk,)) for d in o["nodes"]],
            "edges": [obj(d, (srck, tgtk)) for d in o["edges"]],
            "graph": o.get("graph"), "extra": sorted(set(o) - {"directed", "multigraph", "graph", "nodes", "edges"})}


def parse_text(text):
    t = text.lstrip()
    return parse_json_text(text) if t.startswith("{") else parse_graphml_text(text)


def doc_simple(doc):
    """distinct node ids, declared endpoints, no parallel edges - the reader model's domain"""
    if doc["fmt"] == "graphml":
        ids = [n[0] for n in doc["nodes"]]
        pairs = [frozenset((e[0], e[1])) for e in doc["edges"]]
        ends = [x for e in doc["edges"] for x in e[:2]]
    else:
        ids, pairs, ends = [], [], []
        for n in doc["nodes"]:
            d = dict((k, v) for k, v in n)
            if "id" not in d:
                return False
            ids.append(d["id"][1])
        for e in doc["edges"]:
            d = dict((k, v) for k, v in e)
            if "source" not in d or "target" not in d:
                return True     # reader raises KeyError before anything else matters
            pairs.append(frozenset((d["source"][1], d["target"][1])))
            ends += [d["source"][1], d["target"][1]]
    return len(set(ids)) == len(ids) and len(set(pairs)) == len(pairs) and set(ends) <= set(ids)


def lean_doc_norm(doc):
    """driver reply -> comparable form (same shape as parse_*_text without the extras)"""
    if doc is None:
        return None
    if doc["fmt"] == "graphml":
        return {"fmt": "graphml", "keys": doc["keys"], "nodes": doc["nodes"], "edges": doc["edges"]}
    return {"fmt": "json", "directed": doc["directed"], "multigraph": doc["multigraph"],
            "nodes": doc["nodes"], "edges": doc["edges"]}


def impl_doc_norm(doc):
    if doc is None:
        return None
    if doc["fmt"] == "graphml":
        return {"fmt": "graphml", "keys": doc["keys"], "nodes": doc["nodes"], "edges": doc["edges"]}
    return {"fmt": "json", "directed": doc["directed"], "multigraph": doc["multigraph"],
            "nodes": doc["nodes"], "edges": doc["edges"]}


def doc_for_driver(doc):
    d = impl_doc_norm(doc)
    return d


# --------------------------------------------------------------------------
# implementation runner

class Impl:
    """a fresh store + importer (shared or disjoint flavour); every C01 mechanism through the library's own calls"""

    def __init__(self, disjoint=False):
        self.disjoint = bool(disjoint)
        if self.disjoint:
            import fim.graph.networkx_property_graph_disjoint as m
            self.m = m
            m.NetworkXGraphStorageDisjoint.storage_instance = None
            self.imp = m.NetworkXGraphImporterDisjoint()
            self.st = m.NetworkXGraphStorageDisjoint.storage_instance
            self.gclass = m.NetworkXPropertyGraphDisjoint
            self.px = "d"
        else:
            import fim.graph.networkx_property_graph as m
            self.m = m
            m.NetworkXGraphStorage.storage_instance = None
            self.imp = m.NetworkXGraphImporter()
            self.st = m.NetworkXGraphStorage.storage_instance
            self.gclass = m.NetworkXPropertyGraph
            self.px = ""
        self.tmp = tempfile.mkdtemp(prefix="c01-")
        self.nfile = 0

    def close(self):
        shutil.rmtree(self.tmp, ignore_errors=True)
        if self.disjoint:
            self.m.NetworkXGraphStorageDisjoint.storage_instance = None
        else:
            self.m.NetworkXGraphStorage.storage_instance = None

    def graph(self, gid):
        return self.gclass(graph_id=gid, importer=self.imp)

    def nx(self, gid):
        """the nx.Graph object holding graph gid"""
        return self.st.graphs[gid] if self.disjoint else self.st.graphs

    def _ge(self, g):
        return [[[n, attrs_wire(d)] for n, d in g.nodes(data=True)], [[u, v, attrs_wire(d)] for u, v, d in g.edges(data=True)]]

    def load_op(self):
        if self.disjoint:
            return ["dload", [[val(k)] + self._ge(g) for k, g in self.st.graphs.items()],
                    [[val(k), c] for k, c in self.st.graph_node_ids.items()]]
        ns, es = self._ge(self.st.graphs)
        return ["load", self.st.start_id, ns, es]

    def dump(self):
        if self.disjoint:
            return {"graphs": [[val(k)] + self._ge(g) for k, g in self.st.graphs.items()],
                    "counters": [[val(k), c] for k, c in self.st.graph_node_ids.items()]}
        ns, es = self._ge(self.st.graphs)
        return {"next": self.st.start_id, "nodes": ns, "edges": es}

    def serialize(self, gid, fmt):
        from fim.graph.abc_property_graph import GraphFormat
        return self.graph(gid).serialize_graph(format=GraphFormat.GRAPHML if fmt == "graphml" else GraphFormat.JSON_NODELINK)

    def write(self, text, name=None):
        """a fresh file for every text, or - with `name` - the file of that name again (a path that is re-used for
        another text later in the same process)"""
        self.nfile += 1
        p = os.path.join(self.tmp, name or "g%d.txt" % self.nfile)
        with open(p, "w", encoding="utf-8", newline="") as f:
            f.write(text)
        return p

    def import_(self, entry, text, gid=None, name=None):
        """returns the graph id of the imported graph; `name`: the file entry points go through that (re-used) file name"""
        if entry == "string":
            return self.imp.import_graph_from_string(graph_string=text, graph_id=gid).graph_id
        if entry == "file":
            return self.imp.import_graph_from_file(graph_file=self.write(text, name), graph_id=gid).graph_id
        if entry == "string_direct":
            return self.imp.import_graph_from_string_direct(graph_string=text).graph_id
        if entry == "file_direct":
            return self.imp.import_graph_from_file_direct(graph_file=self.write(text, name)).graph_id
        raise ValueError(entry)

    def has_graph(self, gid):
        if self.disjoint:
            return gid in self.st.graphs and len(self.st.graphs[gid]) > 0
        return self.st.extract_graph(gid) is not None


ENTRIES = ("string", "file", "string_direct", "file_direct")


def snapshot(st, gid):
    """canonical content of one graph: nodes keyed by NodeID (typed values, GraphID dropped),
    edges as unordered NodeID pairs with their typed properties"""
    if hasattr(st, "graph_node_ids"):
        if gid not in st.graphs:
            return None                  # disjoint flavour: do not let the defaultdict create an entry
        g = st.graphs[gid]               # the graph object itself (read only)
    else:
        # shared flavour, read off the store independently of extract_graph: the nodes stamped with this GraphID and
        # the edges among them (edges leading into other graphs of the store - merge_nodes leaves such - are not content
        # of this graph)
        own = [n for n, d in st.graphs.nodes(data=True) if d.get("GraphID") == gid]
        g = st.graphs.subgraph(own)
    if g is None or len(g) == 0:
        return None

    def tv(v):
        return [type(v).__name__, repr(v) if isinstance(v, float) else v]
    nodes = {}
    for n, d in g.nodes(data=True):
        nid = d.get("NodeID")
        key = json.dumps(tv(nid), ensure_ascii=True)
        if key in nodes:
            key = key + "#%d" % len(nodes)
        nodes[key] = sorted([k, tv(v)] for k, v in d.items() if k != "GraphID")
    edges = []
    for u, v, d in g.edges(data=True):
        a = json.dumps(tv(g.nodes[u].get("NodeID")), ensure_ascii=True)
        b = json.dumps(tv(g.nodes[v].get("NodeID")), ensure_ascii=True)
        edges.append([sorted([a, b]), sorted([k, tv(x)] for k, x in d.items())])
    edges.sort(key=lambda e: json.dumps(e, ensure_ascii=True))
    return {"nodes": nodes, "edges": edges, "graph_ids": sorted({json.dumps(tv(d.get("GraphID"))) for _, d in g.nodes(data=True)})}


def public_diffs(im, gid, limit=3):
    """the graph as the PUBLIC accessors show it (list_all_node_ids, get_node_properties, get_link_properties - they go through
    the node look-up helper of the mixin, which may keep state of its own) against the graph as it lies in the store.
    None when the accessors' contract does not apply (NodeIDs not unique non-empty strings); else a list of differences"""
    G = im.nx(gid)
    own = [(n, d) for n, d in G.nodes(data=True) if d.get("GraphID") == gid]
    nids = [d.get("NodeID") for _, d in own]
    if not own or not all(isinstance(x, str) and x for x in nids) or len(set(nids)) != len(nids):
        return None
    g = im.graph(gid)
    out = []

    def typed(d):
        return sorted((k, type(v).__name__, repr(v)) for k, v in d.items())
    try:
        listed = sorted(g.list_all_node_ids())
    except Exception as e:
        listed = "raises %s" % type(e).__name__
    if listed != sorted(nids):
        out.append(["list_all_node_ids", str(listed)[:200], str(sorted(nids))[:200]])
    idx = {}
    for n, d in own:
        idx[n] = d["NodeID"]
        if "Class" not in d:
            continue
        try:
            labels, props = g.get_node_properties(node_id=d["NodeID"])
            got = [list(labels), typed(props)]
        except Exception as e:
            got = "raises %s" % type(e).__name__
        want = [[d["Class"]], typed({k: v for k, v in d.items() if k != "Class"})]
        if got != want and len(out) < limit:
            out.append(["get_node_properties", d["NodeID"], str(got)[:300], str(want)[:300]])
    for u, v, d in G.edges(data=True):
        if u not in idx or v not in idx or "Class" not in d or u == v:
            continue
        try:
            kind, props = g.get_link_properties(node_a=idx[u], node_b=idx[v])
            got = [kind, typed(props)]
        except Exception as e:
            got = "raises %s" % type(e).__name__
        want = [d["Class"], typed({k: x for k, x in d.items() if k != "Class"})]
        if got != want and len(out) < limit:
            out.append(["get_link_properties", idx[u], idx[v], str(got)[:300], str(want)[:300]])
    return out


def node_ids(im, gid):
    """NodeIDs of a stored graph, in store order"""
    g = im.nx(gid)
    return [d.get("NodeID") for _, d in g.nodes(data=True) if d.get("GraphID") == gid]


def doc_content(doc, markup=True):
    """canonical content of a parsed document, independent of internal ids, key ids and order;
    markup=False leaves the label markup (checked separately) out"""
    if doc["fmt"] == "graphml":
        kt = {}
        for k in doc["keys"]:
            kt.setdefault(k[0], []).append((k[1], k[3], k[2]))

        def props(data, scope):
            out = []
            for kid, text in data:
                cands = kt.get(kid) or [("?%s" % kid, "?", scope)]
                name, ty, sc = next((c for c in cands if c[2] == scope), cands[-1])
                out.append([name, ty, text])
            return sorted(out)
        nid = {}
        nodes = []
        for n in doc["nodes"]:
            p = props(n[2], "node")
            me = [x[2] for x in p if x[0] == "NodeID"]
            nid[n[0]] = me[0] if me else None
            nodes.append({"labels": n[1] if markup else None, "props": [x for x in p if x[0] != "GraphID"]})
        edges = [{"ends": sorted([json.dumps(nid.get(e[0])), json.dumps(nid.get(e[1]))]), "label": e[2] if markup else None,
                  "props": props(e[3], "edge")} for e in doc["edges"]]
    else:
        nid = {}
        nodes = []
        for n in doc["nodes"]:
            d = dict((k, v) for k, v in n)
            nid[d["id"][1]] = d.get("NodeID")
            nodes.append({"props": sorted([k, v] for k, v in n if k not in ("id", "GraphID"))})
        edges = []
        for e in doc["edges"]:
            d = dict((k, v) for k, v in e)
            edges.append({"ends": sorted([json.dumps(nid.get(d["source"][1])), json.dumps(nid.get(d["target"][1]))]),
                          "props": sorted([k, v] for k, v in e if k not in ("source", "target"))})
    nodes.sort(key=lambda x: json.dumps(x, sort_keys=True))
    edges.sort(key=lambda x: json.dumps(x, sort_keys=True))
    return {"nodes": nodes, "edges": edges}


def markup_errors(doc):
    """label markup demanded by the persistent importer: labels = ':GraphNode:'+Class, label = Class"""
    errs = []
    kt = {}
    for k in doc["keys"]:
        kt.setdefault(k[0], set()).add((k[1], k[2]))
    for n in doc["nodes"]:
        cls = [t for kid, t in n[2] if ("Class", "node") in kt.get(kid, ())]
        if len(cls) != 1 or n[1] != ":GraphNode:" + cls[0]:
            errs.append(["node", n[0], n[1], cls])
    for e in doc["edges"]:
        cls = [t for kid, t in e[3] if ("Class", "edge") in kt.get(kid, ())]
        if len(cls) != 1 or e[2] != cls[0]:
            errs.append(["edge", e[0], e[1], e[2], cls])
    return errs


# --------------------------------------------------------------------------
# builders

NODE_CLASSES = ["NetworkNode", "Component", "NetworkService", "ConnectionPoint", "Link", "CompositeNode"]
RELS = ["has", "connects", "depends"]
PROP_NAMES = ["Name", "Type", "Site", "Model", "StitchNode", "Details", "Layer", "ImageRef", "BootScript", "p1", "p2", "x-y",
              "ünï", "prop_3", "Class2", "label", "labels", "weight", "key"]
JSON_PROP_NAMES = ["Capacities", "Labels", "Tags", "Flags"]


def gen_raw_spec(rng, maxn=8, maxe=12, maxp=6, maxlen=24, floats=False, nid_adversarial=True):
    """a raw property graph as data: {"nodes":[[nid, cls, props]], "edges":[[a, rel, b, props]], "updates":[[nid, name, v]]}"""
    n = rng.randrange(1, maxn + 1)
    nids, nodes, edges, updates = [], [], [], []
    for i in range(n):
        while True:
            if nid_adversarial and rng.random() < 0.4:
                nid = gen_text(rng, maxlen)
            else:
                nid = "%s-%d" % (rng.choice(["n", "node", "X"]), rng.randrange(10 ** 6))
            if nid and nid not in nids:
                break
        nids.append(nid)
        props = {}
        for _ in range(rng.randrange(0, maxp + 1)):
            if rng.random() < 0.2:
                name = rng.choice(json_property_names())
                v = gen_json_text(rng, maxlen) if rng.random() < 0.93 else rng.choice([7, True, 0])
            else:
                name = rng.choice(PROP_NAMES)
                v = gen_value(rng, maxlen, floats)
            props[name] = v
        cls = rng.choice(NODE_CLASSES) if rng.random() < 0.85 else (gen_text(rng, 12).strip() or "C")
        nodes.append([nid, cls, props])
    for _ in range(rng.randrange(0, maxe + 1)):
        a, b = rng.choice(nids), rng.choice(nids)
        if a == b and rng.random() < 0.8:
            continue
        props = {}
        for _ in range(rng.choice([0, 0, 1, 2])):
            props[rng.choice(["w", "Name", "p1", "x-y", "label", "id", "key"])] = gen_value(rng, maxlen, floats)
        rel = rng.choice(RELS) if rng.random() < 0.9 else (gen_text(rng, 10).strip() or "r")
        edges.append([a, rel, b, props])
    # a few later updates so that dict orders are not just creation order
    for _ in range(rng.choice([0, 0, 1, 2])):
        updates.append([rng.choice(nids), rng.choice(PROP_NAMES), gen_value(rng, maxlen, floats)])
    # key-table collisions: one property name on nodes and on edges with different value types, and with
    # different types from node to node
    if rng.random() < 0.35:
        name = rng.choice(["Index", "Name", "p1", "x-y", "label", "w", "Type"])
        kinds = [lambda i: i + 1, lambda i: "t%d" % i, lambda i: i % 2 == 0]
        kn, ke = rng.sample(kinds, 2)
        mixed = rng.random() < 0.4
        for i, nd in enumerate(nodes):
            if rng.random() < 0.8:
                nd[2][name] = (rng.choice(kinds)(i) if mixed else kn(i))
        for i, ed in enumerate(edges):
            ed[3][name] = ke(i)
    return {"nodes": nodes, "edges": edges, "updates": updates}


def build_raw(g, spec):
    """build a raw graph from its spec through add_node / add_link / update_node_property"""
    for nid, cls, props in spec["nodes"]:
        g.add_node(node_id=nid, label=cls, props=dict(props) or None)
    for a, rel, b, props in spec["edges"]:
        g.add_link(node_a=a, rel=rel, node_b=b, props=dict(props) or None)
    for nid, name, v in spec.get("updates", []):
        g.update_node_property(node_id=nid, prop_name=name, prop_val=v)


def mutate_graph(g, st_snapshot_nids, seed, how=None):
    """edit the held graph after it was saved: update / add node / add link / delete node, chosen from `seed`;
    how="del-first": the node with the lowest internal number goes first, so that the numbering of the held model has a gap
    (a copy imported from its text is numbered differently)"""
    import random as _r
    rng = _r.Random("C01/mutate/%s" % seed)
    nids = list(st_snapshot_nids)
    done = []
    if how == "del-first" and len(nids) >= 2:
        try:
            g.delete_node(node_id=nids[0])
            nids.pop(0)
            done.append("del_first")
        except Exception:
            pass
    for _ in range(rng.choice([1, 2, 3])):
        op = rng.choice(["update", "update", "add_node", "add_link", "del_node"])
        try:
            if op == "update":
                nid = rng.choice(nids)
                g.update_node_property(node_id=nid, prop_name=rng.choice(["Name", "p1", "Site", "edited"]), prop_val="edited-%d" % rng.randrange(1000))
            elif op == "add_node":
                nid = "added-%d" % rng.randrange(10 ** 6)
                g.add_node(node_id=nid, label="NetworkNode", props={"Name": "added", "Index": 5})
                nids.append(nid)
            elif op == "add_link" and len(nids) >= 2:
                a, b = rng.sample(nids, 2)
                g.add_link(node_a=a, rel="connects", node_b=b, props={"edited": "yes"})
            elif op == "del_node" and len(nids) >= 2:
                nid = rng.choice(nids)
                g.delete_node(node_id=nid)
                nids.remove(nid)
            else:
                continue
            done.append(op)
        except Exception:
            pass
    if not done:
        g.update_node_property(node_id=nids[0], prop_name="edited", prop_val="yes")
        done.append("update")
    return done


def spec_values(spec):
    for _, cls, props in spec["nodes"]:
        yield cls
        yield from props.values()
    for _, rel, _, props in spec["edges"]:
        yield rel
        yield from props.values()
    for _, _, v in spec.get("updates", []):
        yield v
    for nid, _, _ in spec["nodes"]:
        yield nid


def _json_data_value(rng, maxlen):
    """what `element.user_data = …` takes: any JSON-encodable Python value (a str is taken as JSON *text*)"""
    o = gen_json_object(rng, maxlen)
    if isinstance(o, str) or rng.random() < 0.25:
        t = json.dumps(o, ensure_ascii=rng.random() < 0.5)
        return (" " + t + "\n") if rng.random() < 0.1 else t
    return o


def decorate_topology(rng, t, maxlen=24, share=0.5):
    """set JSON-validated properties through the public API (attribute setters / set_property) on nodes, components,
    interfaces, services and links, with every value shape the setter accepts; a setter that refuses a value is
    simply skipped (the histogram `jsonprop:*` in the evidence shows what got through)"""
    import fim.user as f
    from fim.slivers.capacities_labels import Capacities, CapacityHints, Labels, ReservationInfo, StructuralInfo, Flags
    from fim.slivers.tags import Tags
    from fim.slivers.gateway import Gateway

    def labels():
        kw = {}
        for name, mk in rng.sample([
                ("vlan", lambda: str(rng.randrange(1, 4000))), ("vlan_range", lambda: ["100-200", "300-%d" % rng.randrange(301, 4000)]),
                ("local_name", lambda: gen_text(rng, maxlen) or "p"), ("device_name", lambda: gen_text(rng, maxlen) or "d"),
                ("bdf", lambda: ["0000:41:00.%d" % i for i in range(rng.randrange(1, 3))]), ("mac", lambda: "04:3F:72:B7:15:6C"),
                ("ipv4", lambda: ["192.168.1.%d" % rng.randrange(1, 200)]), ("ipv4_subnet", lambda: "192.168.1.0/24"),
                ("ipv6", lambda: "2001:db8::1"), ("asn", lambda: "65000"), ("instance", lambda: gen_text(rng, maxlen) or "i"),
                ("region", lambda: "é-west"), ("account_id", lambda: "007"), ("numa", lambda: "1")], rng.randrange(0, 4)):
            kw[name] = mk()
        return Labels(**kw)

    def caps():
        return Capacities(**{k: rng.choice([0, 1, 2, 100, 2 ** 31]) for k in rng.sample(["core", "ram", "disk", "bw", "unit", "cpu", "mtu", "burst_size"], rng.randrange(0, 4))})
    makers = {
        "labels": labels, "label_allocations": labels, "capacities": caps, "capacity_allocations": caps,
        "capacity_hints": lambda: CapacityHints(instance_type=rng.choice(["fabric.c1.m4.d10", "fabric.c8.m32.d100"])),
        "reservation_info": lambda: ReservationInfo(reservation_id=gen_text(rng, maxlen) or "r", reservation_state=rng.choice(["Active", "Ticketed", "<&>"]),
                                                    **({"error_message": gen_text(rng, maxlen)} if rng.random() < 0.5 else {})),
        "structural_info": lambda: StructuralInfo(adm_graph_ids=[gen_text(rng, 12) or "g" for _ in range(rng.randrange(0, 3))]),
        "tags": lambda: Tags(*[rng.choice(["blue", "exp-7", "é", "0", "true", "None"]) for _ in range(rng.randrange(0, 3))]),
        "flags": lambda: Flags(**{k: rng.random() < 0.5 for k in rng.sample(["auto_config", "auto_mount", "ipv4_management", "ptp"], rng.randrange(0, 3))}),
        "peer_labels": labels,
        "gateway": lambda: Gateway(Labels(ipv4="192.168.1.1", ipv4_subnet="192.168.1.0/24")),
    }
    def ero(cls):
        from fim.slivers import path_info as pi
        pth = pi.Path()
        hops = ["10.1.1.%d" % rng.randrange(1, 200) for _ in range(rng.randrange(1, 4))]
        if rng.random() < 0.5:
            pth.set_symmetric(hops)
        else:
            pth.set(a2z=hops, z2a=list(reversed(hops))[:rng.randrange(0, len(hops) + 1)])
        e = cls()
        e.set(payload=pth)
        return e

    def maint():
        from fim.slivers.maintenance_mode import MaintenanceInfo, MaintenanceEntry, MaintenanceState
        m = MaintenanceInfo()
        for k in range(rng.randrange(1, 3)):
            m.add(rng.choice(["ALL", "w%d" % k, "é"]), MaintenanceEntry(state=rng.choice(list(MaintenanceState)),
                                                                           **({"deadline": None} if rng.random() < 0.5 else {})))
        m.finalize()
        return m
    from fim.slivers import path_info as _pi
    makers["ero"] = lambda: ero(_pi.ERO)
    makers["path_info"] = lambda: ero(_pi.PathInfo)
    makers["maintenance_info"] = maint
    elements = []
    try:
        for n in list(t.nodes.values()) + list(getattr(t, "facilities", {}).values()):
            elements.append(("node", n))
            for c in n.components.values():
                elements.append(("comp", c))
            for i in n.interface_list:
                elements.append(("iface", i))
        for ns in t.network_services.values():
            elements.append(("ns", ns))
        for ln in t.links.values():
            elements.append(("link", ln))
    except Exception:
        pass
    for kind, e in elements:
        if rng.random() >= share:
            continue
        for _ in range(rng.choice([1, 1, 2, 3])):
            pn = rng.choice(["user_data", "user_data", "mf_data", "layout_data"] + list(makers))
            try:
                if pn in ("user_data", "mf_data", "layout_data"):
                    setattr(e, pn, _json_data_value(rng, maxlen))
                else:
                    v = makers[pn]()
                    if rng.random() < 0.5 and pn in ("labels", "capacities", "tags", "flags"):
                        setattr(e, pn, v)
                    else:
                        e.set_property(pn, v)
            except Exception:
                pass


# --------------------------------------------------------------------------
# graphs of one (shared) store that share NodeIDs, and merge_nodes between them

def plan_merges(rng, graphs):
    """for a list of scenario graphs: make some of them share a NodeID and return the merge_nodes calls
    [[index of the caller, index of the other graph, node id | {"idx": k}, merge_properties | None]].
    Raw specs get the shared node injected (with links to nodes of their own); an API-built topology gets a second
    copy of itself (appended to `graphs` as {"kind": "copy", "of": k}: the saved text imported under another id - the
    way delegation models of one substrate share their NodeIDs)"""
    merges = []
    n0 = len(graphs)
    for _ in range(rng.choice([1, 1, 2, 3])):
        a = rng.randrange(n0)
        ga = graphs[a]
        if ga["kind"] == "raw":
            others = [k for k in range(n0) if k != a and graphs[k]["kind"] == "raw"]
            if not others:
                continue
            b = rng.choice(others)
            if rng.random() < 0.5:
                a, b = b, a
            sa, sb = graphs[a]["spec"], graphs[b]["spec"]
            nid, _, pa = rng.choice(sa["nodes"])
            if not any(x[0] == nid for x in sb["nodes"]):
                own = [x[0] for x in sb["nodes"]]
                sb["nodes"].append([nid, rng.choice(NODE_CLASSES), {"Name": gen_value(rng, 12), "Type": "shared"}])
                for x in rng.sample(own, min(len(own), rng.choice([0, 1, 1, 2]))):
                    sb["edges"].append([nid, rng.choice(RELS), x, {}] if rng.random() < 0.5 else [x, rng.choice(RELS), nid, {"w": 1}])
            pb = next(x[2] for x in sb["nodes"] if x[0] == nid)
            common = [k for k in pa if k in pb]
            pol = None
            if rng.random() < 0.5:
                pol = {k: rng.choice(["discard", "overwrite"]) for k in common if rng.random() < 0.7}
                if rng.random() < 0.3:
                    pol["Class"] = rng.choice(["discard", "overwrite"])
            merges.append([a, b, nid, pol])
        elif ga["kind"] == "topo":
            graphs.append({"kind": "copy", "of": a, "gid": "copy-of-%d-%d" % (a, len(graphs)), "fmt": rng.choice(["graphml", "json"])})
            b = len(graphs) - 1
            for _ in range(rng.choice([1, 2, 3])):
                x, y = (a, b) if rng.random() < 0.5 else (b, a)
                merges.append([x, y, {"idx": rng.randrange(1000)}, None])
    return merges


def apply_merges(im, gids, merges):
    """-> list of outcomes ("ok" | exception class name) of the merge_nodes calls"""
    out = []
    for a, b, nid, pol in merges:
        try:
            if isinstance(nid, dict):
                common = sorted(set(map(str, node_ids(im, gids[a]))) & set(map(str, node_ids(im, gids[b]))))
                if not common:
                    out.append("no-common-node")
                    continue
                nid = common[nid["idx"] % len(common)]
            im.graph(gids[a]).merge_nodes(node_id=nid, other_graph=im.graph(gids[b]), merge_properties=pol)
            out.append("ok")
        except Exception as e:
            out.append(type(e).__name__)
    return out


def cross_edges(im):
    """number of edges of the shared store that join nodes of different graphs"""
    if im.disjoint:
        return 0
    g = im.st.graphs
    return sum(1 for u, v in g.edges() if g.nodes[u].get("GraphID") != g.nodes[v].get("GraphID"))


def gen_topology(rng, kind=None, maxlen=24, importer=None, decorate=True):
    t = _gen_topology(rng, kind, maxlen, importer)
    if decorate:
        decorate_topology(rng, t, maxlen)
    return t


def _gen_topology(rng, kind=None, maxlen=24, importer=None):
    """an ExperimentTopology / SubstrateTopology built through the public API; returns the topology"""
    import fim.user as f
    from fim.slivers.capacities_labels import Capacities, Labels
    kind = kind or rng.choice(["slice", "slice", "slice", "substrate"])
    sites = ["RENC", "UKY", "LBNL", "STAR"]
    if kind == "slice":
        t = f.ExperimentTopology(importer=importer)
        nn = rng.randrange(1, 5)
        ifs = []
        for i in range(nn):
            site = rng.choice(sites)
            kw = {}
            if rng.random() < 0.6:
                kw["capacities"] = Capacities(core=rng.choice([1, 2, 4, 8]), ram=rng.choice([2, 8, 64]), disk=rng.choice([10, 100]))
            node = t.add_node(name="n%d" % i, site=site, **kw)
            if rng.random() < 0.5:
                node.set_property("image_ref", rng.choice(["default_centos_8", "default_ubuntu_20"]))
                node.set_property("image_type", "qcow2")
            if rng.random() < 0.4:
                node.set_property("boot_script", gen_text(rng, maxlen))
            if rng.random() < 0.4:
                try:
                    node.set_property("user_data", {"k": gen_text(rng, maxlen), "n": rng.randrange(100)})
                except Exception:
                    pass
            for j in range(rng.choice([0, 1, 1, 2])):
                mt = rng.choice([f.ComponentModelType.SharedNIC_ConnectX_6, f.ComponentModelType.SmartNIC_ConnectX_6,
                                 f.ComponentModelType.SmartNIC_ConnectX_5, f.ComponentModelType.GPU_RTX6000,
                                 f.ComponentModelType.NVME_P4510])
                c = node.add_component(model_type=mt, name="c%d_%d" % (i, j))
                ifs.extend(c.interface_list)
        rng.shuffle(ifs)
        k = 0
        while len(ifs) >= 2 and rng.random() < 0.8 and k < 3:
            m = rng.choice([2, 2, 3]) if len(ifs) >= 3 else 2
            sel, ifs = ifs[:m], ifs[m:]
            try:
                st = f.ServiceType.L2Bridge if len({t.get_owner_node(i).site for i in sel}) == 1 else \
                    (f.ServiceType.L2STS if m > 2 else rng.choice([f.ServiceType.L2PTP, f.ServiceType.L2STS]))
                t.add_network_service(name="s%d" % k, nstype=st, interfaces=sel)
            except Exception:
                pass
            k += 1
        if rng.random() < 0.3:
            try:
                fac = t.add_facility(name="fac1", site=rng.choice(sites), capacities=Capacities(bw=10),
                                     labels=Labels(vlan="100"))
                if ifs:
                    t.add_network_service(name="sf", nstype=f.ServiceType.L2STS, interfaces=[fac.interface_list[0], ifs.pop()])
            except Exception:
                pass
        if rng.random() < 0.3 and nn:
            try:
                t.add_network_service(name="v4", nstype=f.ServiceType.FABNetv4, interfaces=ifs[:1])
            except Exception:
                pass
        return t
    t = f.SubstrateTopology(importer=importer)
    site = rng.choice(sites)
    nn = rng.randrange(1, 3)
    sw = t.add_node(name="dp-sw", site=site, node_id="sw-%d" % rng.randrange(10 ** 6), ntype=f.NodeType.Switch,
                    capacities=Capacities(unit=1), stitch_node=True)
    sf = sw.add_network_service(name=sw.name + "-ns", node_id=sw.node_id + "-ns", nstype=f.ServiceType.MPLS, stitch_node=True)
    for i in range(nn):
        w = t.add_node(name="w%d" % i, model="R7525", site=site, node_id="W%d-%d" % (i, rng.randrange(10 ** 6)),
                       ntype=f.NodeType.Server, capacities=Capacities(core=32, cpu=2, unit=1, ram=512, disk=4800),
                       location=f.Location(postal=gen_text(rng, maxlen) or "x"))
        w.add_component(name=w.name + "-nvme", model="P4510", node_id=w.node_id + "-nvme", ctype=f.ComponentType.NVME,
                        capacities=Capacities(unit=1, disk=1000), labels=Labels(bdf="0000:21:00.0"))
        nic = w.add_component(name=w.name + "-nic", model="ConnectX-6", node_id=w.node_id + "-nic",
                              ctype=f.ComponentType.SmartNIC, capacities=Capacities(unit=1),
                              network_service_node_id=w.node_id + "-nic-sf", interface_node_ids=[w.node_id + "-p1", w.node_id + "-p2"],
                              interface_labels=[Labels(bdf="0000:41:00.0", mac="04:3F:72:B7:15:6C"),
                                                Labels(bdf="0000:41:00.1", mac="04:3F:72:B7:15:6D")])
        spn = "p%d" % i
        sp = sf.add_interface(name=spn, node_id=sw.node_id + "-" + spn, itype=f.InterfaceType.TrunkPort,
                              capacities=Capacities(bw=100))
        t.add_link(name="l%d" % i, ltype=f.LinkType.Patch, node_id="link-%d-%d" % (i, rng.randrange(10 ** 6)),
                   interfaces=[nic.interface_list[0], sp])
    if rng.random() < 0.6:
        try:
            t.single_delegation(delegation_id="del1", label_pools=f.Pools(atype=f.DelegationType.LABEL),
                                capacity_pools=f.Pools(atype=f.DelegationType.CAPACITY))
        except Exception:
            pass
    return t
