"""C16 helpers: hand-written recognisers of the documented formats (no `re`, nothing taken from the Lean model)
and the grammar-based generator of members and near-misses."""

HEX = set("0123456789abcdefABCDEF")
LHEX = set("0123456789abcdef")
ADIG = set("0123456789")


def is_dec(c):          # what [\d] documents for str patterns: a Unicode decimal digit
    return c.isdecimal()


def is_word(c):         # \w for str patterns: alphanumeric in the Unicode sense, or underscore
    return c.isalnum() or c == "_"


def all_in(s, ok):
    return all(ok(c) for c in s)


def dec_value(s):
    """value of a non-empty string of Unicode decimal digits (digit by digit, no int())"""
    import unicodedata
    n = 0
    for c in s:
        n = n * 10 + unicodedata.decimal(c)
    return n


def is_decs(s, lo, hi=None):
    return len(s) >= lo and (hi is None or len(s) <= hi) and all_in(s, is_dec)


def hexs(s, lo, hi, alphabet=HEX):
    return lo <= len(s) <= hi and all(c in alphabet for c in s)


def octet(s):
    return 1 <= len(s) <= 3 and all(c in ADIG for c in s) and int(s) <= 255


def ipv4(s):
    p = s.split(".")
    return len(p) == 4 and all(octet(x) for x in p)


def ipv6(s):
    p = s.split(":")
    return 1 <= len(p) <= 8 and all(hexs(x, 0, 4) for x in p)


def two(s, sep, f, g=None):
    p = s.split(sep)
    return len(p) == 2 and f(p[0]) and (g or f)(p[1])


def bdf(s):
    # domain:bus:device.function  e.g. 0000:00:00.0
    p = s.split(":")
    if len(p) != 3 or not hexs(p[0], 1, 4) or not hexs(p[1], 2, 2):
        return False
    q = p[2].split(".")
    return len(q) == 2 and hexs(q[0], 2, 2) and hexs(q[1], 1, 10 ** 9)


def mac(s):
    p = s.split(":")
    return len(p) == 6 and all(hexs(x, 2, 2) for x in p)


def vlan(s):
    return is_decs(s, 1, 4) and 0 <= dec_value(s) <= 4096


def vlan_range(s):
    p = s.split("-")
    return len(p) == 2 and vlan(p[0]) and vlan(p[1]) and dec_value(p[0]) <= dec_value(p[1])


def asn(s):
    return is_decs(s, 1) and 0 < dec_value(s) < 2 ** 32


def numa(s):
    # "-1 or 0-7": an integer literal, optional minus sign then decimal digits
    body = s[1:] if s.startswith("-") else s
    if not is_decs(body, 1):
        return False
    v = dec_value(body)
    v = -v if s.startswith("-") else v
    return -1 <= v <= 7


def charset(extra, lo, hi):
    return lambda s: lo <= len(s) <= hi and all(is_word(c) or c in extra for c in s)


LABEL_DOMAIN = {
    "bdf": bdf, "mac": mac, "ipv4": ipv4,
    "ipv4_range": lambda s: two(s, "-", ipv4),
    "ipv4_subnet": lambda s: two(s, "/", ipv4, lambda x: is_decs(x, 1, 2)),
    "ipv6": ipv6,
    "ipv6_range": lambda s: two(s, "-", ipv6),
    "ipv6_subnet": lambda s: two(s, "/", ipv6, lambda x: is_decs(x, 1, 2)),
    "asn": asn, "vlan": vlan, "vlan_range": vlan_range, "inner_vlan": vlan,
    "bgp_key": charset("-+_/.:", 6, 150), "account_id": charset("-/.", 3, 100), "region": charset("-.", 3, 100),
    "usb_id": lambda s: two(s, ":", lambda x: hexs(x, 4, 4, LHEX)),
    "numa": numa,
}
FREE_FIELDS = ["instance", "instance_parent", "local_name", "local_type", "device_name"]

tag_ok = charset("-", 1, 255)
NAME_DOMAIN = {
    "NodeSliver": charset("-.", 2, 255),
    "CompositeNodeSliver": charset("-.", 2, 255),
    "NetworkAttachedStorageSliver": charset("-.", 2, 255),
    "ComponentSliver": charset("-_. ", 2, 255),
    "NetworkServiceSliver": charset("-_.", 2, 255),
    "InterfaceSliver": charset("-+_/. :", 1, 255),
    "NetworkLinkSliver": charset("-+_/. :", 2, 255),
}
JSON_MAX = {"MeasurementData": 4096, "UserData": 2048, "LayoutData": 1024}
BOOT_LIMIT = 1024      # strictly shorter

# ---------------------------------------------------------------- generators

UNI_DIGITS = ["١٢", "１２", "१", "\U0001d7d9"]          # Nd: accepted by [\d] and int()
NOT_DEC = ["²", "Ⅷ", "①", "௰"]                              # isdigit/isnumeric but not decimal
WORDY = "abcXYZ019_éß中٣"


def rhex(rng, n, alphabet="0123456789abcdefABCDEF"):
    return "".join(rng.choice(alphabet) for _ in range(n))


def roctet(rng):
    return rng.choice(["0", "1", "9", "10", "99", "100", "199", "200", "249", "250", "255", "01", "001", "099", str(rng.randrange(256))])


def ripv4(rng):
    return ".".join(roctet(rng) for _ in range(4))


def ripv6(rng):
    k = rng.choice([1, 2, 3, 8, 8, 8, rng.randrange(1, 9)])
    return ":".join(rhex(rng, rng.choice([0, 1, 4, 4, rng.randrange(5)])) for _ in range(k))


def rvlan(rng):
    return rng.choice(["0", "1", "4096", "4095", "0000", "0012", "100", str(rng.randrange(4097)), rng.choice(UNI_DIGITS)])


def rchars(rng, extra, lo, hi):
    n = rng.choice([lo, lo + 1, hi - 1, hi, rng.randrange(lo, min(hi, lo + 30) + 1)])
    alpha = WORDY + extra
    return "".join(rng.choice(alpha) for _ in range(n))


def member(field, rng):
    if field == "bdf":
        return "%s:%s:%s.%s" % (rhex(rng, rng.randrange(1, 5)), rhex(rng, 2), rhex(rng, 2), rhex(rng, rng.randrange(1, 4)))
    if field == "mac":
        return ":".join(rhex(rng, 2) for _ in range(6))
    if field == "ipv4":
        return ripv4(rng)
    if field == "ipv4_range":
        return ripv4(rng) + "-" + ripv4(rng)
    if field == "ipv4_subnet":
        return ripv4(rng) + "/" + rng.choice(["0", "8", "24", "32", "99", "٢٤"])
    if field == "ipv6":
        return ripv6(rng)
    if field == "ipv6_range":
        return ripv6(rng) + "-" + ripv6(rng)
    if field == "ipv6_subnet":
        return ripv6(rng) + "/" + rng.choice(["0", "48", "64", "99", "7"])
    if field == "asn":
        return rng.choice(["1", "12345", "4294967295", "0001", "4294967294", "65535", str(rng.randrange(1, 2 ** 32)), "١٢٣"])
    if field in ("vlan", "inner_vlan"):
        return rvlan(rng)
    if field == "vlan_range":
        a, b = sorted([rng.randrange(4097), rng.randrange(4097)])
        return rng.choice(["0-4096", "1-1", "100-200", "%d-%d" % (a, b), "0001-0002"])
    if field == "bgp_key":
        return rchars(rng, "-+_/.:", 6, 150)
    if field == "account_id":
        return rchars(rng, "-/.", 3, 100)
    if field == "region":
        return rchars(rng, "-.", 3, 100)
    if field == "usb_id":
        return rhex(rng, 4, "0123456789abcdef") + ":" + rhex(rng, 4, "0123456789abcdef")
    if field == "numa":
        return rng.choice(["-1", "0", "7", "3", "07", "-0", "5", "٣"])
    return rng.choice(["x", "eth0", "p1", "some name", "", "a\nb", "é", "None", "null"])      # free-form fields


SPECIAL = {
    "vlan": ["4097", "10000", "-1", "9999", "", "12a", "1 2", "1_2", "+12", "4096\n", "²", "Ⅷ"],
    "inner_vlan": ["4097", "10000", "-1", "", "6000"],
    "asn": ["0", "4294967296", "99999999999", "-5", "", "00", "1_0", "+1", "60000000000", "①"],
    "vlan_range": ["5-3", "1-4097", "1--2", "1-2-3", "-", "1-", "-2", "4097-4098", "1-8000", "0-0", "10000-2", "1\n-2"],
    "numa": ["8", "-2", " 3 ", "+3", "0_7", "3.0", "", "-", "--1", "- 1", "3 ", "\t3", "-5", "abc", "7\n", "1e0", "²"],
    "bdf": ["0000:00:00x0", "0000:00:00:0", "0000:00:00.", "00000:00:00.0", ":00:00.0", "0000:0:00.0", "0000:00:00\n0",
            "0000:00:00..0", "0000:21:00.0", "000:21:00.0", "g000:00:00.0"],
    "mac": ["00:11:22:33:44", "00:11:22:33:44:55:66", "00-11-22-33-44-55", "0:11:22:33:44:55", "00:11:22:33:44:5g"],
    "ipv4": ["256.1.1.1", "1.1.1", "1.1.1.1.1", "1.1.1.", "1..1.1", "1,1,1,1", "0001.1.1.1", "300.1.1.1", "1.1.1.299",
             "١.1.1.1", "192.168.1.1"],
    "ipv4_range": ["1.1.1.1", "1.1.1.1-", "1.1.1.1-2.2.2.2-3.3.3.3", "1.1.1.1 - 2.2.2.2", "1.1.1.1-256.1.1.1"],
    "ipv4_subnet": ["1.1.1.1/", "1.1.1.1/123", "1.1.1.1", "1.1.1.1/2x", "1.1.1.1//24", "10.0.0.0/99"],
    "ipv6": ["", ":", "::", ":::::::", "::::::::", "1:2:3:4:5:6:7:8:9", "12345::", "g::", "2001:0db8:85a3:0000:0000:8a2e:0370:7334",
             "::1\n", "1:2\n:3"],
    "ipv6_range": ["-", "::-::", "::", "::-::-::", "1::-2::\n"],
    "ipv6_subnet": ["/1", "::/64", "::/", "::/123", "::", "2001:0db8:85a3:0000:0000/48"],
    "usb_id": ["1234:ABCD", "1234:abc", "1234abcd", "12345:abcd", "1234:abcd:", "1234-abcd"],
    "bgp_key": ["abc", "a" * 151, "abc def", "abcdef!", "abc\ndef", "abcdeé"],
    "account_id": ["ab", "a" * 101, "abc+def", "abc:def", "3e2480b2-b4d5-3456-976a-7b0de65a1b62", "abc def"],
    "region": ["ab", "a" * 101, "us-central1", "us/central", "us_east.1", "us east"],
}


def mutations(m, rng):
    out = [m + "\n", "\n" + m, m + " ", " " + m, m + "x", m + "\n\n", m + "\r", m + "\r\n", m[:-1], m + "\x00", m + " ",
           m + "\x0b", m.upper(), m + "\n" + m]
    if len(m) > 1:
        k = rng.randrange(1, len(m))
        out.append(m[:k] + "\n" + m[k:])
        out.append(m[:k] + " " + m[k:])
        out.append(m[:k] + m[k + 1:])
    for a, b in ((":", "-"), (".", ","), (".", "x"), ("-", ":"), ("/", "\\"), (":", "::"), (".", "")):
        if a in m:
            i = rng.choice([j for j, c in enumerate(m) if c == a])
            out.append(m[:i] + b + m[i + 1:])
    if m and all(c in ADIG for c in m):
        out.append(rng.choice(NOT_DEC))
        out.append(m + rng.choice(NOT_DEC))
        out.append("".join(chr(0x0660 + int(c)) for c in m))      # the same number in Arabic-Indic digits (Nd)
    return out


# ---------------------------------------------------------------- sentinel look-alikes
# Words a storage / codec layer may use as a placeholder for "no value" or as a reserved key.  Most of them ARE members of the
# name / tag / boot-script / free-form domains, so they must survive every encode -> decode like any other member.  The literal
# part is language-level (spellings of null / true / false / not-a-number / empty containers in Python, JSON, Cypher);
# the rest is read from the running code base: every string constant of ABCPropertyGraphConstants (NEO4j_NONE, the property and
# class names, relationship names).
LITERAL_SENTINELS = ["None", "none", "NONE", "null", "NULL", "Null", "nil", "NaN", "nan", "True", "False", "true", "false", "undefined", "[]", "{}", '""',
                     "''", "0", "00", "-1", "0.0", "__", "--", "..", "N/A", "n/a", "Infinity", "\\N", "<null>", "(null)", "None,None", "Nonee", "NoneNone",
                     "None-1", " None", "None "]
_CODE_SENTINELS = None


def code_sentinels():
    global _CODE_SENTINELS
    if _CODE_SENTINELS is None:
        out = set()
        try:
            from fim.graph.abc_property_graph_constants import ABCPropertyGraphConstants as K
            for klass in K.__mro__:
                for k, v in vars(klass).items():
                    if isinstance(v, str) and not k.startswith("__") and 0 < len(v) <= 24:
                        out.add(v)
        except Exception:
            pass
        _CODE_SENTINELS = sorted(out)
    return _CODE_SENTINELS


def sentinel_words(dom=None, n=None, rng=None):
    """the pool (optionally only the members of `dom`; optionally the literal ones plus a sample of n code constants)"""
    code = [w for w in code_sentinels() if w not in LITERAL_SENTINELS]
    if n is not None and rng is not None and len(code) > n:
        code = rng.sample(code, n)
    out = LITERAL_SENTINELS + code
    return [w for w in out if dom is None or dom(w)]


NAME_SENTINELS = ["None", "none", "null", "NaN", "True", "false", "00", "__", "Name"]     # head of every name pool (members of most name classes)


def candidates(field, rng, n):
    """n strings for one field: the documented example, specials, then members and their mutations"""
    out = list(SPECIAL.get(field, []))
    if field in FREE_FIELDS or field in ("bgp_key", "account_id", "region"):
        out = ["None", "null", "NoneNone", "Labels"] + out
    while len(out) < n:
        m = member(field, rng)
        out.append(m)
        muts = mutations(m, rng)
        rng.shuffle(muts)
        out.extend(muts[:4])
    return out[:n]


NAME_HEAD = 32          # deterministic head of name_candidates (sentinel look-alikes + corner cases); the rest is random


def name_candidates(cls, rng, n):
    extra = {"NodeSliver": "-.", "CompositeNodeSliver": "-.", "NetworkAttachedStorageSliver": "-.", "ComponentSliver": "-_. ",
             "NetworkServiceSliver": "-_.", "InterfaceSliver": "-+_/. :", "NetworkLinkSliver": "-+_/. :"}[cls]
    lo = 1 if cls == "InterfaceSliver" else 2
    out = NAME_SENTINELS + ["ab\n", "ab", "a", "", "a b", "a+b", "a/b", "a:b", "a_b", "a.b", "a-b", "a" * 255, "a" * 256, "a" * 254 + "\n", "a" * 255 + "\n",
           "né", "ab!", "ab\x00", "\nab", "a\nb", "ab\r", "  ", "中文"]
    assert len(out) == NAME_HEAD
    while len(out) < n:
        m = rchars(rng, extra, lo, 255)
        out.append(m)
        muts = mutations(m, rng)
        rng.shuffle(muts)
        out.extend(muts[:3])
    return out[:n]


def tag_candidates(rng, n):
    out = ["None", "null", "NaN", "0", "Tags"] + ["abc\n", "abc", "a", "", "a-b", "a_b", "a b", "a.b", "a" * 255, "a" * 256, "a" * 255 + "\n", "été", "a\nb", "blue", "soft", "-",
           "a\r", "\nabc", "a/b"]
    while len(out) < n:
        m = rchars(rng, "-", 1, 255)
        out.append(m)
        muts = mutations(m, rng)
        rng.shuffle(muts)
        out.extend(muts[:3])
    return out[:n]


def classify(s, dom):
    """name the way a string outside the domain misses it (used in signatures; computed from the case itself)"""
    if s.endswith("\n") and dom(s[:-1]):
        return "trailing-newline"
    if s != s.strip() and dom(s.strip()):
        return "whitespace-padded"
    if s[:1] == "+" and dom(s[1:]):
        return "plus-sign"
    if "_" in s and dom(s.replace("_", "")):
        return "digit-underscore"
    for i in range(len(s)):
        if s[i] != "." and dom(s[:i] + "." + s[i + 1:]):
            return "any-char-for-dot"
    return "outside-domain"
