"""seedrerun.py <seeded-dir> ... : run harness/seedrun.sh (committed machinery, scratch worktree) on already recorded seeded
changes and append the outcome to their meta.json check_history."""
import json, os, re, subprocess, sys
for d in sys.argv[1:]:
    d = d.rstrip("/")
    mp = os.path.join(d, "meta.json")
    meta = json.load(open(mp))
    extra = sorted({c for h in meta.get("check_history", []) for c, v in h["checks"].items() if v["exit"] == 1} - {meta["property"]})
    txt = subprocess.run(["bash", os.path.join(os.path.dirname(os.path.abspath(__file__)), "seedrun.sh"), d, meta["property"]] + extra,
                         capture_output=True, text=True).stdout
    checks = {}
    for mm in re.finditer(r"check (C\d+) on changed tree: rc=(\d+) \| (\d+) VIOLATION", txt):
        checks[mm.group(1)] = {"exit": int(mm.group(2)), "violation_lines": int(mm.group(3))}
    replays = re.findall(r"replay: (\w+) (\S+) \| (.*)", txt)
    meta.setdefault("check_history", []).append({
        "verif_commit": os.popen("git -C /verif rev-parse --short HEAD").read().strip(), "checks": checks,
        "first_replays": [{"kind": k, "signature": s, "what": w[:160]} for k, s, w in replays[:3]]})
    meta["detected"] = any(c["exit"] == 1 for c in checks.values())
    json.dump(meta, open(mp, "w"), indent=1)
    print(d, "detected" if meta["detected"] else "MISSED", checks, [r[0] for r in replays[:3]])
