#!/bin/bash
# seedfinal.sh [seeded-dir ...]   (default: every /verif/seeded/*/)
# The confirmation the brief describes, against /repo ITSELF: git -C /repo apply <patch>; ./check <property>; git -C /repo checkout -- .
# Run only while nothing else uses /repo.  Appends the outcome to each meta.json ("final_on_repo").
cd "$(dirname "$0")/.."
[ -z "$(git -C /repo status --porcelain)" ] || { echo "/repo is not clean"; exit 2; }
DIRS="${*:-$(ls -d seeded/*/)}"
for d in $DIRS; do
  d="${d%/}"; prop=$(python3 -c "import json;print(json.load(open('$d/meta.json'))['property'])")
  if ! git -C /repo apply "$PWD/$d/patch.diff" 2>/dev/null; then echo "$d: patch does not apply"; continue; fi
  extra=$(python3 -c "import json;m=json.load(open('$d/meta.json'));print(' '.join(sorted({c for h in m.get('check_history',[]) for c,v in h['checks'].items() if v['exit']==1}-{'$prop'})))")
  res=""
  for c in $prop $extra; do
    out=$(./check "$c" 2>&1); rc=$?
    res="$res $c:rc=$rc:$(echo "$out" | grep -c '^VIOLATION')v:$(echo "$out" | grep '^VIOLATION' | grep -vc no-failing-input-found)concrete"
  done
  git -C /repo checkout -- . ; git -C /repo clean -fdq -- fim test 2>/dev/null
  python3 - "$d" "$res" <<'PY'
import json,sys,os
p=os.path.join(sys.argv[1],"meta.json"); m=json.load(open(p))
m["final_on_repo"]={"verif_commit":os.popen("git -C /verif rev-parse --short HEAD").read().strip(),"procedure":"git -C /repo apply patch.diff; ./check <id> (quick); git -C /repo checkout -- .","results":sys.argv[2].split()}
json.dump(m,open(p,"w"),indent=1)
PY
  echo "$d:$res"
done
# bring generated tables / build cache back to the unchanged tree
for c in $(python3 -c "import json;print(' '.join(c['property_id'] for c in json.load(open('MANIFEST.json'))['checks']))"); do ./check "$c" >/dev/null 2>&1 || echo "WARNING: $c not green on the unchanged tree afterwards"; done
