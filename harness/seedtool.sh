#!/bin/bash
# seedtool.sh new <name>      -> scratch worktree /tmp/seed/<name> of /repo HEAD (detached)
# seedtool.sh rm <name>       -> remove it
# seedtool.sh prop <Cxx>      -> print the property text given to a seeding sub-agent
set -e
case "$1" in
  new) mkdir -p /tmp/seed; git -C /repo worktree add --detach "/tmp/seed/$2" HEAD >/dev/null 2>&1; echo "/tmp/seed/$2";;
  rm)  git -C /repo worktree remove --force "/tmp/seed/$2"; git -C /repo worktree prune;;
  prop) /venv/bin/python - "$2" <<'PY'
import json, sys
for l in open("/verif/properties.jsonl"):
    p = json.loads(l)
    if p["id"] == sys.argv[1]:
        print("Title: %s\n\nStatement: %s\n\nQuantifier: %s\n\nWhy the existing tests cannot settle it: %s\n\nCode it is anchored in: %s" % (
            p["title"], p["statement"], p["quantifier"]["text"], p["why_tests_cant"], ", ".join(p["anchors"]["files"])))
PY
  ;;
esac
