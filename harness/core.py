"""Shared machinery for every property check.

Pipeline (DESIGN.md 2.1): gen -> lake build -> axiom audit -> correspondence
(implementation vs Lean driver on identical lines) -> property oracle on the
implementation -> failing-input search (only if a link broke) -> evidence.

Exit codes: 0 held, 1 violation (VIOLATION line printed), 2 infrastructure.
"""
import fcntl
import hashlib
import importlib
import json
import os
import random
import re
import subprocess
import sys
import time
import traceback

VERIF = os.path.dirname(os.path.dirname(os.path.abspath(__file__)))
REPO = os.environ.get("VERIF_REPO", "/repo")
LEAN_DIR = os.path.join(VERIF, "lean")
GEN_DIR = os.path.join(LEAN_DIR, "FimVerif", "Generated")
EVIDENCE_DIR = os.path.join(VERIF, "evidence")
REPLAY_DIR = os.path.join(VERIF, "replays")
CORPUS_DIR = os.path.join(VERIF, "corpus")
KNOWN_DIR = os.path.join(VERIF, "known_findings")
ALLOWED_AXIOMS = {"propext", "Classical.choice", "Quot.sound"}
FORBIDDEN_RE = re.compile(
    r"\bsorry\b|\badmit\b|^\s*axiom\s|native_decide|bv_decide|implemented_by|\bunsafe\s|maxHeartbeats\s+0\b")


class ExtractionError(Exception):
    """The translator met a source shape it does not recognise."""


class Infra(Exception):
    """Infrastructure failure (exit 2) - never a violation."""


# --------------------------------------------------------------------------
# small utilities


def sha(s):
    if not isinstance(s, bytes):
        s = s.encode("utf-8", "surrogatepass")
    return hashlib.sha256(s).hexdigest()[:16]


def canon(o):
    return json.dumps(o, sort_keys=True, ensure_ascii=True, separators=(",", ":"), default=str)


def err_kind(e):
    """Map a Python exception to the small enum used on the wire."""
    n = type(e).__name__
    table = {
        "PropertyGraphQueryException": "query", "PropertyGraphImportException": "import",
        "TopologyException": "topology", "AssertionError": "assertion", "ValueError": "value",
        "AttributeError": "attribute", "KeyError": "key", "TypeError": "type",
        "LabelException": "label", "CapacityException": "capacity", "DelegationException": "delegation",
        "PoolException": "pool", "CatalogException": "catalog", "RuntimeError": "runtime",
        "JSONDecodeError": "value", "IndexError": "index", "MaintenanceModeException": "maintenance",
        "TagException": "tag", "JSONDataException": "jsondata", "FlagException": "flag",
        "LocationException": "location", "CapacityHintException": "capacity",
        "ReservationInfoException": "reservation", "StructuralInfoException": "structural",
        "PathException": "path", "GatewayException": "gateway", "InstanceCatalogException": "catalog",
        "ComponentCatalogException": "catalog", "SliverException": "sliver",
        "NetworkXNoPath": "nopath", "NodeNotFound": "nonode", "NetworkXError": "nxerror",
        "UnboundLocalError": "unbound", "RecursionError": "runtime", "ZeroDivisionError": "value",
    }
    return table.get(n, "other:" + n)


TOUCHED = set()          # Generated files (re)written or confirmed by an extractor in this process
BASELINE_DIR = os.path.join(VERIF, "gen", "baseline")   # Generated/*.lean of the unchanged tree (refreshed by setup.sh)


def baseline_owners():
    """{extractor name: [Generated file names it writes]} recorded by harness/genall.py next to the baseline."""
    try:
        with open(os.path.join(BASELINE_DIR, "owners.json")) as f:
            return json.load(f)
    except (OSError, ValueError):
        return {}


def restore_baseline(extractors):
    """An extractor did not recognise the changed source: put back the Generated files of the unchanged tree that THIS extractor
    writes (owners.json) and that it did not confirm in this run.  The model is then the model of the unchanged code and its tie
    to the changed code is the correspondence check alone.  Returns the list of restored file names, or None when an extractor's
    files are not on record (no fallback possible)."""
    out = []
    owners = baseline_owners()
    names = []
    for e in extractors:
        if e not in owners:
            return None
        names.extend(owners[e])
    for fn in sorted(set(names)):
        if fn.endswith(".lean") and os.path.isfile(os.path.join(BASELINE_DIR, fn)) and os.path.join(GEN_DIR, fn) not in TOUCHED:
            with open(os.path.join(BASELINE_DIR, fn)) as f:
                text = f.read()
            path = os.path.join(GEN_DIR, fn)
            try:
                with open(path) as f:
                    same = f.read() == text
            except FileNotFoundError:
                same = False
            if not same:
                tmp = path + ".tmp%d" % os.getpid()
                with open(tmp, "w") as f:
                    f.write(text)
                os.replace(tmp, path)
                out.append(fn)
    return out


def write_if_changed(path, text):
    TOUCHED.add(os.path.abspath(path))
    os.makedirs(os.path.dirname(path), exist_ok=True)
    try:
        with open(path) as f:
            if f.read() == text:
                return False
    except FileNotFoundError:
        pass
    tmp = path + ".tmp%d" % os.getpid()
    with open(tmp, "w") as f:
        f.write(text)
    os.replace(tmp, path)
    return True


def lean_str(s):
    """A Lean string literal for an arbitrary Python str."""
    out = ['"']
    for ch in s:
        o = ord(ch)
        if ch == '"':
            out.append('\\"')
        elif ch == "\\":
            out.append("\\\\")
        elif ch == "\n":
            out.append("\\n")
        elif ch == "\t":
            out.append("\\t")
        elif ch == "\r":
            out.append("\\r")
        elif o < 32 or o == 127 or o > 126:
            out.append("\\u{%x}" % o)
        else:
            out.append(ch)
    out.append('"')
    return "".join(out)


def lean_list(items):
    return "[" + ", ".join(items) + "]"


class Lock:
    """flock around everything that touches lean/.lake or Generated/."""

    def __init__(self, shared=False):
        self.f = None
        self.shared = shared      # driver runs only read .lake: several may run at once; gen/build/audit are exclusive

    def __enter__(self):
        self.f = open(os.path.join(LEAN_DIR, ".verif.lock"), "a")
        fcntl.flock(self.f, fcntl.LOCK_SH if self.shared else fcntl.LOCK_EX)
        return self

    def __exit__(self, *a):
        fcntl.flock(self.f, fcntl.LOCK_UN)
        self.f.close()


def run_cmd(cmd, cwd=None, inp=None, timeout=900, env=None):
    t0 = time.time()
    e = dict(os.environ)
    if env:
        e.update(env)
    try:
        p = subprocess.run(cmd, cwd=cwd, input=inp, capture_output=True, text=True, timeout=timeout, env=e)
    except subprocess.TimeoutExpired:
        raise Infra("timeout running %s" % (cmd,))
    return p.returncode, p.stdout, p.stderr, time.time() - t0


# --------------------------------------------------------------------------
# Lean side


def lake_build(modules, timeout=1500):
    rc, out, err, dt = run_cmd(["lake", "build"] + list(modules), cwd=LEAN_DIR, timeout=timeout)
    return rc == 0, (out + err)[-6000:], dt


def lean_audit(modules, theorems, timeout=600):
    """#print axioms on every listed theorem; returns (ok, {thm: [axioms]}, log)."""
    src = "".join("import %s\n" % m for m in modules)
    src += "".join("#print axioms %s\n" % t for t in theorems)
    path = os.path.join(LEAN_DIR, ".audit_%d.lean" % os.getpid())
    with open(path, "w") as f:
        f.write(src)
    try:
        rc, out, err, dt = run_cmd(["lake", "env", "lean", path], cwd=LEAN_DIR, timeout=timeout)
    finally:
        os.unlink(path)
    res = {}
    text = out + err
    # "'X' depends on axioms: [a, b]" or "'X' does not depend on any axioms"
    for m in re.finditer(r"'(\S+)' depends on axioms: \[([^\]]*)\]", text, re.S):
        res[m.group(1)] = [a.strip() for a in m.group(2).replace("\n", " ").split(",") if a.strip()]
    for m in re.finditer(r"'(\S+)' does not depend on any axioms", text):
        res[m.group(1)] = []
    bad = []
    for t in theorems:
        if t not in res:
            bad.append("%s: not found / not checked" % t)
        else:
            extra = [a for a in res[t] if a not in ALLOWED_AXIOMS]
            if extra:
                bad.append("%s: unexpected axioms %s" % (t, extra))
    if rc != 0 and not bad:
        bad.append("audit file failed: " + text[-800:])
    return (not bad), res, "\n".join(bad)


def strip_lean_comments(src):
    # remove block comments (nested) and line comments
    out = []
    i, n, depth = 0, len(src), 0
    while i < n:
        if src.startswith("/-", i):
            depth += 1
            i += 2
        elif depth and src.startswith("-/", i):
            depth -= 1
            i += 2
        elif depth:
            if src[i] == "\n":
                out.append("\n")
            i += 1
        elif src.startswith("--", i):
            while i < n and src[i] != "\n":
                i += 1
        elif src[i] == '"':
            j = i + 1
            while j < n and src[j] != '"':
                j += 2 if src[j] == "\\" else 1
            out.append('""')
            i = j + 1
        else:
            out.append(src[i])
            i += 1
    return "".join(out)


def module_closure(modules):
    """Source files of `modules` and everything under FimVerif they import (transitively)."""
    seen, todo = {}, list(modules)
    while todo:
        m = todo.pop()
        if m in seen or not m.startswith("FimVerif"):
            continue
        path = os.path.join(LEAN_DIR, *m.split(".")) + ".lean"
        if not os.path.exists(path):
            continue
        src = open(path).read()
        seen[m] = path
        todo.extend(re.findall(r"^\s*import\s+([\w\.]+)", src, re.M))
    return seen


def driver_imports(prop):
    """Modules the property's driver script imports (the script itself is interpreted, its imports must be built)."""
    path = os.path.join(LEAN_DIR, "FimVerif", "Drivers", prop + ".lean")
    try:
        src = open(path).read()
    except OSError:
        return []
    return [m for m in re.findall(r"^\s*import\s+([\w\.]+)", src, re.M) if m.startswith("FimVerif")]


def grep_forbidden(modules):
    hits = []
    for m, p in sorted(module_closure(modules).items()):
        body = strip_lean_comments(open(p).read())
        for ln, line in enumerate(body.split("\n"), 1):
            if FORBIDDEN_RE.search(line):
                hits.append("%s:%d: %s" % (os.path.relpath(p, LEAN_DIR), ln, line.strip()[:120]))
    return hits


class LeanDriver:
    """Pipe request lines through `lake env lean --run FimVerif/Drivers/<X>.lean`."""

    def __init__(self, name):
        self.path = os.path.join("FimVerif", "Drivers", name + ".lean")

    def run(self, lines, timeout=900):
        inp = "".join(l + "\n" for l in lines)
        with Lock(shared=True):
            rc, out, err, dt = run_cmd(["lake", "env", "lean", "--run", self.path], cwd=LEAN_DIR, inp=inp, timeout=timeout)
        if rc != 0:
            raise Infra("lean driver %s failed rc=%s: %s" % (self.path, rc, (out[-500:] + err[-1500:])))
        res = out.split("\n")
        if res and res[-1] == "":
            res.pop()
        if len(res) != len(lines):
            raise Infra("lean driver %s returned %d lines for %d requests; stderr=%s" % (self.path, len(res), len(lines), err[-800:]))
        return res


# --------------------------------------------------------------------------
# known findings


def load_known(prop=None):
    """known_findings/<Cxx>.json: {"findings":[{"property","signature","status":"known"|"fixed","commit"?,"what"}]}.
    Committed, never written at run time."""
    out = []
    if not os.path.isdir(KNOWN_DIR):
        return out
    for fn in sorted(os.listdir(KNOWN_DIR)):
        if fn.endswith(".json") and (prop is None or fn == prop + ".json"):
            with open(os.path.join(KNOWN_DIR, fn)) as f:
                out.extend(json.load(f).get("findings", []))
    return out


# --------------------------------------------------------------------------
# results


class Result:
    """What correspondence()/oracle()/search() hand back."""

    def __init__(self):
        self.evaluations = 0
        self.nontrivial = set()
        self.samples = []
        self.hist = {}
        self.disagreements = []   # [{case, impl, model}]
        self.violations = []      # [{signature, what, case, expected?, observed?}]

    def count(self, key, n=1):
        self.hist[key] = self.hist.get(key, 0) + n

    def sample(self, x, limit=6):
        if len(self.samples) < limit:
            self.samples.append(x)

    def violation(self, signature, what, case, **kw):
        # keep the first (generators go small -> large) example of each signature
        for v in self.violations:
            if v["signature"] == signature:
                v["count"] = v.get("count", 1) + 1
                return
        d = {"signature": signature, "what": what, "case": case}
        d.update(kw)
        self.violations.append(d)


class Ctx:
    def __init__(self, prop, tier, seed):
        self.prop = prop
        self.tier = tier
        self.seed = seed
        self.rng = random.Random("%s/%s" % (prop, seed))
        self.t0 = time.time()
        self.thorough = tier == "thorough"
        self.notes = []

    def scale(self, quick, thorough):
        return thorough if self.thorough else quick

    def sub_rng(self, tag):
        return random.Random("%s/%s/%s" % (self.prop, self.seed, tag))

    def elapsed(self):
        return time.time() - self.t0


# --------------------------------------------------------------------------
# main pipeline


def write_replay(prop, payload):
    os.makedirs(REPLAY_DIR, exist_ok=True)
    name = "%s_%s.json" % (prop, sha(canon(payload)))
    path = os.path.join(REPLAY_DIR, name)
    with open(path, "w") as f:
        json.dump(payload, f, indent=1, sort_keys=True, default=str)
    return path


def run_property(prop, tier, seed, replay=None):
    mod = importlib.import_module("props." + prop.lower())
    ctx = Ctx(prop, tier, seed)
    if replay:
        with open(replay) as f:
            payload = json.load(f)
        if payload.get("kind") != "concrete":
            print("replay %s is of kind %s (names a proof/correspondence link, nothing to execute)" % (replay, payload.get("kind")))
            print(json.dumps({k: payload.get(k) for k in ("link", "theorem", "detail")}, indent=1)[:3000])
            return 1
        still = mod.replay(ctx, payload)
        print("replay: %s" % ("still fails" if still else "passes"))
        if still:
            print("VIOLATION property=%s replay=%s" % (prop, replay))
        return 1 if still else 0

    broken = []          # [(link, detail)]
    obligations = list(getattr(mod, "THEOREMS", []))
    discharged = 0
    axioms = {}
    gen_report = {}
    corr = Result()
    orc = Result()

    with Lock():
        # 1. gen
        unextracted = []     # [(link, detail)] extractors that did not recognise the source
        for g in getattr(mod, "GENERATORS", []):
            gname = "%s.%s" % (g.__module__.split(".")[-1], g.__name__)
            try:
                gen_report[gname] = g()
            except ExtractionError as e:
                unextracted.append(("extraction:" + gname, str(e)))
            except Exception as e:  # an extractor crashing on changed source is also an extraction failure
                unextracted.append(("extraction:" + gname, "%s: %s" % (type(e).__name__, e)))
        fallback = None
        if unextracted:
            restored = restore_baseline([l.split(":", 1)[1] for l, _ in unextracted]) \
                if getattr(mod, "EXTRACTION_FALLBACK", True) and os.path.isdir(BASELINE_DIR) else None
            if restored is not None:
                # The translator recognises the idioms that exist today; a source shape it does not recognise is not by
                # itself a violation.  Keep the model of the unchanged code (theorems stay proved about it) and let the
                # second tie - correspondence of that model with the changed code, the property oracle and the larger
                # search - decide.  Anything they find is reported concretely; if they find nothing the property is shown to
                # hold through the correspondence tie alone (recorded in the evidence and printed as a NOTE).
                fallback = {"unrecognised": [{"extractor": l, "detail": d[:600]} for l, d in unextracted],
                            "restored": restored}
                gen_report["translator_fallback"] = fallback
            else:
                broken.extend(unextracted)
        # 2. build
        ok, log, dt = lake_build(list(mod.LEAN_MODULES) + ["FimVerif.Drivers.Proto"] + driver_imports(prop))
        build_ok = ok
        if not ok:
            broken.append(("build", log))
        # 3. audit
        if ok:
            aok, axioms, alog = lean_audit(mod.LEAN_MODULES, obligations)
            discharged = sum(1 for t in obligations if t in axioms and set(axioms[t]) <= ALLOWED_AXIOMS)
            if not aok:
                broken.append(("audit", alog))
            hits = grep_forbidden(list(mod.LEAN_MODULES) + ["FimVerif.Drivers." + prop])
            if hits:
                broken.append(("forbidden", "\n".join(hits)))
            if ctx.thorough and getattr(mod, "LEANCHECKER", True):
                rc, out, err, dt2 = run_cmd(["lake", "env", "leanchecker"] + list(mod.LEAN_MODULES), cwd=LEAN_DIR, timeout=1800)
                if rc != 0:
                    broken.append(("leanchecker", (out + err)[-2000:]))
                else:
                    ctx.notes.append("leanchecker ok on %s (%.0fs)" % (mod.LEAN_MODULES, dt2))
    # 4. correspondence (needs the built driver; LeanDriver.run takes the lock itself)
    if build_ok and hasattr(mod, "correspondence"):
        try:
            mod.correspondence(ctx, corr)
        except Infra:
            raise
        except Exception as e:
            broken.append(("correspondence-crash", traceback.format_exc()[-3000:]))
        if corr.disagreements:
            broken.append(("correspondence", corr.disagreements[:5]))

    if fallback and corr.evaluations == 0 and not broken:
        # no second tie to fall back on: the unrecognised source is a broken link after all
        broken.extend(unextracted)

    # 5. oracle on the implementation
    try:
        mod.oracle(ctx, orc)
    except Infra:
        raise
    except Exception:
        broken.append(("oracle-crash", traceback.format_exc()[-3000:]))

    known = [k for k in load_known() if k["property"] == prop]
    known_sigs = {k["signature"]: k for k in known if k.get("status") == "known"}
    reported = []
    known_hit = []
    for v in orc.violations + corr.violations:
        if v["signature"] in known_sigs:
            known_hit.append(v)
        else:
            reported.append(v)

    # 6. search when a link broke (or the translator fell back to the model of the unchanged code) and nothing concrete
    #    (unlisted) is on the table
    searched = None
    if (broken or fallback) and not reported and hasattr(mod, "search"):
        sr = Result()
        try:
            mod.search(ctx, sr, broken or [(u["extractor"], u["detail"]) for u in fallback["unrecognised"]])
        except Exception:
            ctx.notes.append("search crashed: " + traceback.format_exc()[-1500:])
        searched = sr.evaluations
        for v in sr.violations:
            if v["signature"] not in known_sigs:
                reported.append(v)

    lines = []
    for v in known_hit:
        lines.append("KNOWN-FINDING: property=%s %s [%s]" % (prop, known_sigs[v["signature"]].get("what", v["what"]), v["signature"]))
    rc = 0
    for v in reported:
        p = write_replay(prop, {"property": prop, "kind": "concrete", "signature": v["signature"], "what": v["what"],
                                "case": v["case"], "expected": v.get("expected"), "observed": v.get("observed"),
                                "seed": seed, "tier": tier,
                                "broken_links": [b[0] for b in broken]})
        lines.append("VIOLATION property=%s replay=%s" % (prop, p))
        rc = 1
    if broken and not reported:
        link, detail = broken[0]
        p = write_replay(prop, {"property": prop, "kind": "unproved", "link": link,
                                "theorem": _guess_theorem(detail) if link in ("build", "audit") else None,
                                "detail": detail if isinstance(detail, str) else json.loads(canon(detail)),
                                "all_broken_links": [b[0] for b in broken], "seed": seed, "tier": tier,
                                "searched_evaluations": searched})
        lines.append("VIOLATION property=%s replay=%s no-failing-input-found" % (prop, p))
        rc = 1

    # 7. evidence
    nviol = len(reported) + (1 if (broken and not reported) else 0)
    samples = (corr.samples[:4] + orc.samples[:4]) or [{"note": "no cases"}]
    samples = samples + [{"obligation": t, "axioms": axioms.get(t)} for t in obligations[:4]]
    ev = {
        "property_id": prop, "tier": tier, "seed": seed, "level": "proof",
        "coverage": {
            "obligations": max(len(obligations), 1), "discharged": discharged,
            "checker_cmd": "cd lean && lake build %s && lake env lean <#print axioms of every obligation>%s" % (
                " ".join(mod.LEAN_MODULES), " && lake env leanchecker " + " ".join(mod.LEAN_MODULES) if ctx.thorough else ""),
            "trusted_base": list(getattr(mod, "TRUSTED_BASE", [])) + [
                "Lean 4.33 kernel; axioms per theorem listed under theorem_axioms (allowed: propext, Classical.choice, Quot.sound)",
                "translator /verif/gen and correspondence harness /verif/harness"],
            "theorems": obligations, "theorem_axioms": axioms,
            "generated": gen_report,
            "evaluations": corr.evaluations + orc.evaluations,
            "distinct_nontrivial": len(corr.nontrivial | orc.nontrivial),
            "rule": getattr(mod, "RULE", ""),
            "samples": json.loads(canon(samples)),
            "correspondence": {"evaluations": corr.evaluations, "disagreements": len(corr.disagreements), "histogram": corr.hist},
            "oracle": {"evaluations": orc.evaluations, "histogram": orc.hist,
                       "known_findings_seen": sorted({v["signature"] for v in known_hit}),
                       "unlisted_violations": sorted({v["signature"] for v in reported})},
            "broken_links": [b[0] for b in broken],
            "search_evaluations": searched,
            "notes": ctx.notes,
            "exhaustive": bool(getattr(mod, "EXHAUSTIVE", False)),
        },
        "assumptions": list(getattr(mod, "ASSUMPTIONS", [])),
        "wall_s": round(time.time() - ctx.t0, 2),
        "violations": nviol,
    }
    if discharged == 0:
        # a proof-level record needs discharged >= 1; a run whose build broke says so instead
        del ev["coverage"]["discharged"]
        ev["coverage"]["discharged_none"] = "no obligation was discharged in this run (see broken_links)"
    os.makedirs(EVIDENCE_DIR, exist_ok=True)
    with open(os.path.join(EVIDENCE_DIR, prop + ".json"), "w") as f:
        json.dump(ev, f, indent=1, sort_keys=True)
        f.write("\n")

    if fallback:
        state = ("correspondence %d evaluations / %d disagreements, oracle %d, search %s" % (
            corr.evaluations, len(corr.disagreements), orc.evaluations, searched))
        lines.append("NOTE: property=%s translator did not recognise the changed source (%s); the model of the unchanged code was "
                     "kept and tied to the changed code by correspondence only: %s" % (
                         prop, "; ".join(u["extractor"] for u in fallback["unrecognised"]), state))
    for l in lines:
        print(l)
    print("%s tier=%s seed=%s obligations=%d/%d corr=%d (diff %d) oracle=%d known=%d broken=%s wall=%.1fs -> exit %d" % (
        prop, tier, seed, discharged, len(obligations), corr.evaluations, len(corr.disagreements), orc.evaluations,
        len(known_hit), [b[0] for b in broken], time.time() - ctx.t0, rc))
    return rc


def _guess_theorem(detail):
    if not isinstance(detail, str):
        return None
    m = re.search(r"error: ([\w/\.]+\.lean):(\d+)", detail)
    if m:
        try:
            path = os.path.join(LEAN_DIR, m.group(1))
            lines = open(path).read().split("\n")
            for i in range(int(m.group(2)) - 1, -1, -1):
                mm = re.match(r"\s*(?:private\s+)?(?:theorem|lemma|example|def|instance)\s+([\w\.']+)?", lines[i])
                if mm:
                    return "%s (%s:%s)" % (mm.group(1) or "example", m.group(1), m.group(2))
        except Exception:
            pass
        return "%s:%s" % (m.group(1), m.group(2))
    m = re.search(r"([\w\.]+): (?:unexpected axioms|not found)", detail)
    return m.group(1) if m else None


def main(argv):
    import argparse
    ap = argparse.ArgumentParser()
    ap.add_argument("prop")
    ap.add_argument("--tier", default=os.environ.get("VERIF_TIER", "quick"), choices=["quick", "thorough"])
    ap.add_argument("--replay")
    a = ap.parse_args(argv)
    try:
        seed = int(os.environ.get("VERIF_SEED", "0"))
    except ValueError:
        seed = int(sha(os.environ["VERIF_SEED"]), 16) % (2 ** 31)
    sys.path.insert(0, os.path.join(VERIF, "harness"))
    sys.path.insert(0, VERIF)
    if REPO not in sys.path:
        sys.path.insert(0, REPO)
    try:
        return run_property(a.prop.upper(), a.tier, seed, a.replay)
    except Infra as e:
        print("INFRA: %s" % e, file=sys.stderr)
        return 2
